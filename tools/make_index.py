#!/venv/bin/python
"""Regenerate seeded/INDEX.md from the output of tools/selftest.py.   usage: tools/make_index.py <selftest log> [<later log> ...]   (rows of later logs replace earlier ones)"""
import ast, json, sys
from pathlib import Path
VERIF = Path(__file__).resolve().parent.parent
rows = {}
for log in sys.argv[1:]:
    for line in open(log, errors="replace"):
        line = line.strip()
        if line.startswith("('") and line.endswith(")"):
            try:
                t = ast.literal_eval(line)
            except Exception:
                continue
            rows[t[0]] = t
seeds = sorted(p.parent.name for p in (VERIF / "seeded").glob("*/meta.json"))
out = ["# Seeded changes", "",
       "Every directory holds `patch.diff`, `demo.py` (fails with the change, passes without), `notes.md` (the sub-agent's description, incl. what the change needs to manifest) and `meta.json`.",
       "All were produced by fresh sub-agents that saw only the property text and a scratch worktree, then confirmed here: the demo exits 0 on the clean tree and non-zero with the patch, and the repository's 165 baseline tests still pass with the patch (`tools/confirm_seed.py`).",
       "`tools/selftest.py` applies each patch to a scratch worktree (never /repo) and runs the owning property's quick check against it (`VERIF_REPO`).",
       "Round-2 / round-3 seeds (`-R2x`, `-R3x`) were requested with a description of the campaign they had to evade (C10-C17 round 3: property text only).", "",
       "| seed | property | quick check | first reported clause |", "|---|---|---|---|"]
nd = 0
for s in seeds:
    t = rows.get(f"{s}/patch.diff")
    meta = json.loads((VERIF / "seeded" / s / "meta.json").read_text())
    if t is None:
        out.append(f"| {s} | {meta['property']} | (not in this run) | |")
        continue
    nd += t[2] == "detected"
    what = (t[4] if len(t) > 4 else "").replace("what: ", "").replace("|", "/")
    out.append(f"| {s} | {t[1]} | {t[2]} | {what[:150]} |")
muts = sorted(k for k in rows if k.startswith("mutants/"))
out += ["", "Reverse patches of the `fix:` commits (`mutants/revert-Dx.diff`) in the same run:", "", "| patch | property | quick check |", "|---|---|---|"]
for m in muts:
    out.append(f"| {m} | {rows[m][1]} | {rows[m][2]} |")
out += ["", f"Seeds detected in this run: {nd} / {len(seeds)}. Which checks had to be strengthened because a seed was missed at first: DESIGN.md S.5."]
(VERIF / "seeded" / "INDEX.md").write_text("\n".join(out) + "\n")
print(f"{nd}/{len(seeds)} seeds detected; {sum(1 for m in muts if rows[m][2] == 'detected')}/{len(muts)} reverse patches")
