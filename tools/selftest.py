#!/venv/bin/python
"""Binding / sensitivity self-test (not a property check): apply each patch under /verif/mutants and /verif/seeded to a scratch
worktree of /repo, run the owning property's check against that tree (VERIF_REPO), and expect exit 1; the unchanged scratch tree
must give exit 0.  /repo itself is never touched.   usage: tools/selftest.py [--tier quick] [name-filter ...]"""
import json, os, subprocess, sys, tempfile, time
from pathlib import Path
VERIF = Path(__file__).resolve().parent.parent
table = json.loads((VERIF / "mutants" / "TABLE.json").read_text())
items = [(VERIF / "mutants" / k, v) for k, v in table.items()]
for meta in sorted((VERIF / "seeded").glob("*/meta.json")):
    m = json.loads(meta.read_text())
    items.append((meta.parent / "patch.diff", m.get("detected_by") or [m["property"]]))
flt = [a for a in sys.argv[1:] if not a.startswith("--")]
tier = "thorough" if "--thorough" in sys.argv else "quick"
if flt:
    items = [(p, props) for p, props in items if any(f in str(p) for f in flt)]
scratch = Path(tempfile.mkdtemp(prefix="verif-scratch-", dir="/var/tmp"))
wt = scratch / "repo"
subprocess.run(["git", "-C", "/repo", "worktree", "add", "-q", "--detach", str(wt), "HEAD"], check=True)
env = dict(os.environ, VERIF_REPO=str(wt), VERIF_EVIDENCE_DIR=str(scratch / "evidence"), VERIF_REPLAY_DIR=str(scratch / "replay"))
results = []
try:
    for patch, props in items:
        subprocess.run(["git", "-C", str(wt), "checkout", "-q", "--", "."], check=True)
        ap = subprocess.run(["git", "-C", str(wt), "apply", str(patch)], capture_output=True, text=True)
        if ap.returncode != 0:
            results.append((patch.parent.name + "/" + patch.name, props, "PATCH-DOES-NOT-APPLY", 0))
            continue
        for prop in props:
            t0 = time.time()
            r = subprocess.run([str(VERIF / "check"), prop, "--tier", tier], cwd=VERIF, env=env, capture_output=True, text=True)
            verdict = {0: "MISSED", 1: "detected", 2: "machinery-failure"}.get(r.returncode, f"rc={r.returncode}")
            first = next((l.strip() for l in r.stdout.splitlines() if l.strip().startswith("what:")), "")
            results.append((patch.parent.name + "/" + patch.name, prop, verdict, round(time.time() - t0, 1), first[:160]))
            print(results[-1], flush=True)
finally:
    subprocess.run(["git", "-C", "/repo", "worktree", "remove", "--force", str(wt)])
    subprocess.run(["rm", "-rf", str(scratch)])
bad = [r for r in results if r[2] != "detected"]
print(f"{len(results) - len(bad)}/{len(results)} detected")
sys.exit(1 if bad else 0)
