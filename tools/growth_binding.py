#!/venv/bin/python
"""Binding self-test for spec/Utils + spec/EnterExit (./check GROWTH): monkeypatched breakages of the real helpers must be reported.
usage: tools/growth_binding.py diag|exit|pair   (prints the number of violations; 0 = not detected)."""
import sys, random; sys.path.insert(0,'/verif'); sys.path.insert(0,'/repo')
from harness.drivers import growth_utils
import matrix_functions, distributed_shampoo.utils.shampoo_utils as su
from itertools import accumulate, chain, pairwise
class Ctx:
    def __init__(s): s.coverage={}; s.v=[]
    def add(self,k,n=1): self.coverage[k]=self.coverage.get(k,0)+n
    def add_tlc(self,r,n=None): pass
    def violation(self,what,sig,rep): self.v.append(what[:160])
m = sys.argv[1]
if m=="diag": matrix_functions.check_diagonal = lambda A: (not A.triu(diagonal=1).any()) if A.dim()==2 and A.shape[0]==A.shape[1] else (_ for _ in ()).throw(ValueError("Matrix is not square!" if A.dim()==2 else "Matrix is not 2-dimensional!"))
if m=="exit": su.ParameterizeEnterExitContext.__exit__ = lambda self,a,b,c: (self._exit_method(), True)[1]
if m=="pair": su.generate_pairwise_indices = lambda l: ((a,b) for a,b in pairwise(accumulate(chain([0], l))) if b>a)
if m=="nan": matrix_functions.check_diagonal = lambda A: bool((A.triu(1)==0).all() and (A.tril(-1)==0).all()) if A.dim()==2 and A.shape[0]==A.shape[1] else (_ for _ in ()).throw(ValueError("Matrix is not square!" if A.dim()==2 else "Matrix is not 2-dimensional!"))
c=Ctx(); growth_utils.utils_growth(c, True, random.Random(3)); print(m, len(c.v), c.v[:1])
