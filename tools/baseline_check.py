#!/venv/bin/python
"""Run the repository's baseline suite with the guard OFF and compare with /root/.vp/BASELINE.json (stable_pass).
usage: baseline_check.py [tree]   (default /repo; a scratch worktree when confirming a seeded change)"""
import ast, json, os, subprocess, sys, tempfile
import xml.etree.ElementTree as ET
TREE = sys.argv[1] if len(sys.argv) > 1 else "/repo"
b = json.load(open("/root/.vp/BASELINE.json"))
stable = b["stable_pass"]
if isinstance(stable, str):
    stable = ast.literal_eval(stable)
stable = set(stable)
with tempfile.TemporaryDirectory(dir="/var/tmp") as d:
    x = os.path.join(d, "j.xml")
    env = dict(os.environ); env.pop("SHAMPOO_VERIF", None); env.pop("PYTHONPATH", None)
    subprocess.run(["/venv/bin/python", "-m", "pytest", "-ra", "-q", "-p", "no:cacheprovider", "--timeout=900",
                    "--continue-on-collection-errors", f"--junitxml={x}"], cwd=TREE, env=env, capture_output=True)
    root = ET.parse(x).getroot()
passed = set()
for tc in root.iter("testcase"):
    if not any(c.tag in ("failure", "error", "skipped") for c in tc):
        passed.add(f"{tc.get('classname')}::{tc.get('name')}")
missing = sorted(stable - passed)
print(f"stable baseline: {len(stable)}; passing now: {len(passed)}; baseline tests no longer passing: {len(missing)}")
for m in missing:
    print("  MISSING", m)
sys.exit(1 if missing else 0)
