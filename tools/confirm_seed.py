#!/venv/bin/python
"""Confirm a sub-agent's seeded change in its scratch worktree and file it under /verif/seeded/<id>/.
usage: confirm_seed.py <worktree> <A|B> <property> <seed-id>"""
import json, os, shutil, subprocess, sys
wt, which, prop, sid = sys.argv[1:5]
src = os.path.join(wt, "SEED", which)
env = dict(os.environ, PYTHONPATH=wt)
def run(cmd, **kw):
    return subprocess.run(cmd, cwd=wt, env=env, capture_output=True, text=True, **kw)
assert run(["git", "status", "--porcelain", "--untracked-files=no"]).stdout.strip() == "", "worktree not clean"
r0 = run(["/venv/bin/python", os.path.join(src, "demo.py")], timeout=900)
ap = run(["git", "apply", os.path.join(src, "patch.diff")])
assert ap.returncode == 0, ap.stderr
try:
    b = subprocess.run(["/tmp/tools/baseline_check.py", wt], capture_output=True, text=True)
    r1 = run(["/venv/bin/python", os.path.join(src, "demo.py")], timeout=900)
finally:
    run(["git", "checkout", "--", "."])
ok = r0.returncode == 0 and r1.returncode != 0 and "no longer passing: 0" in b.stdout
print(f"{sid}: demo clean rc={r0.returncode}, demo patched rc={r1.returncode}, baseline: {b.stdout.strip().splitlines()[-1] if b.stdout.strip() else b.stderr[-200:]}  => {'CONFIRMED' if ok else 'REJECTED'}")
if not ok:
    print(r0.stdout[-500:], r0.stderr[-500:], r1.stdout[-300:], r1.stderr[-300:])
    sys.exit(1)
dst = os.path.join("/verif/seeded", sid)
os.makedirs(dst, exist_ok=True)
for f in ("patch.diff", "demo.py", "notes.md"):
    shutil.copy(os.path.join(src, f), os.path.join(dst, f))
notes = open(os.path.join(src, "notes.md")).read()
meta = {"id": sid, "property": prop, "source": "independent sub-agent given only the property text and a scratch worktree",
        "needs_to_manifest": "see notes.md", "confirmed": {"demo_on_clean_tree_exit": r0.returncode, "demo_with_patch_exit": r1.returncode,
        "demo_failure_tail": (r1.stdout + r1.stderr)[-400:], "baseline_with_patch": b.stdout.strip().splitlines()[-1]},
        "ran": [f"python SEED/{which}/demo.py (clean worktree)", f"git apply SEED/{which}/patch.diff; /tmp/tools/baseline_check.py <worktree>; python demo.py; git checkout -- ."],
        "detected_by": [prop]}
json.dump(meta, open(os.path.join(dst, "meta.json"), "w"), indent=1)
