"""Build the real DistributedShampoo from a concrete draw and project its state onto the spec's vocabulary.

A draw (JSON-serialisable) is
  {"dtype": "float64", "pdtype": "float64", "seed": int,
   "groups": [{"shapes": [[4,2],[2,2]], "maxdim": 2, "merge": false, "ignored": [],
               "freq": 2, "start": 3, "tol": 1, "kind": "shampoo"|"soap", "method": "eigen"|...,
               "lr": [l1, l2], "mom": [0.0, m1, m2], "b1": [0.0, b1, b1'], "wd": [0.0, w1],   # hyper tables (index = spec value)
               "lr0": 1, "mom0": 1, "b10": 1, "wd0": 0,                                      # initial indices
               "beta2": .., "beta3": -1.0|.., "eps": .., "dampening": .., "nesterov": bool, "bias_corr": bool,
               "decoupled": bool, "graft": null | {"type": .., "eps": .., "beta2": ..}, "override": 0, "mult": 1.0}]}
"""
from __future__ import annotations

import hashlib
from fractions import Fraction

import torch

DT = {"float64": torch.float64, "float32": torch.float32, "bfloat16": torch.bfloat16, "float16": torch.float16}


def make_params(draw):
    gen = torch.Generator().manual_seed(draw["seed"])
    dt = DT[draw["dtype"]]
    out = []
    for g in draw["groups"]:
        ps = []
        for pi, shp in enumerate(g["shapes"]):
            pdt = DT[g["dtypes"][pi]] if g.get("dtypes") else dt          # optional per-parameter dtypes (mixed-precision groups)
            t = torch.randn(tuple(shp), generator=gen, dtype=torch.float64).to(pdt)
            ps.append(torch.nn.Parameter(t))
        out.append(ps)
    for gi, pi in draw.get("frozen0", []):
        if gi < len(out) and pi < len(out[gi]):
            out[gi][pi].requires_grad_(False)          # frozen when the optimizer is constructed
    return out


def make_grad(draw, gi, pi, t, shape, scale=1.0):
    """Gradient of parameter (gi, pi) at step t.  draw["grad_mode"]:
       "dense" (default)  generic random normal entries;
       "striped"          during the first sparse_steps steps every other slice along one dimension is exactly zero;
       "sparse_first"     during the first draw.get("sparse_steps", 2) steps the gradient has ONE non-zero entry (every mode-wise Gram matrix
                          is then exactly diagonal or zero: the diagonal fast path and its later hand-over to the general path are exercised,
                          and most blocks see an exactly zero gradient); dense afterwards.
       draw["grad_scales"] (optional): per-step magnitudes, cycled - gradients far smaller / larger than the accumulated history
       (a step at 1e-10 after O(1) steps, a whole run at 1e-5 or 1e3): absolute thresholds hidden in the code show up here."""
    if t in draw.get("zero_steps", ()):
        # a step on which every gradient is PRESENT and exactly zero (a fully masked batch): weight decay, momentum and the decay
        # of every moving average still act
        gd0 = draw["groups"][gi].get("dtypes") if gi < len(draw["groups"]) else None
        return torch.zeros(tuple(shape), dtype=DT[gd0[pi]] if gd0 else DT[draw["dtype"]])
    gen = torch.Generator().manual_seed(hash((draw["seed"], gi, pi, t)) % (2 ** 31))
    sc = draw.get("grad_scales")
    if sc:
        scale = scale * sc[(t - 1) % len(sc)]
    g = torch.randn(tuple(shape), generator=gen, dtype=torch.float64) * scale
    if draw.get("grad_mode") == "sparse_first" and t <= draw.get("sparse_steps", 2) and g.numel() > 1:
        k = int(torch.randint(g.numel(), (1,), generator=gen))
        flat = torch.zeros(g.numel(), dtype=torch.float64)
        flat[k] = g.reshape(-1)[k]
        g = flat.view(g.shape)
    if draw.get("grad_mode") == "striped" and t <= draw.get("sparse_steps", 2) and g.dim() >= 1:
        # structured sparsity (pruning masks, frozen rows): every other slice along one dimension is exactly zero, so neighbouring
        # slices are exactly orthogonal while non-neighbours are coupled (Gram matrices with zero first off-diagonals only)
        dim = (draw["seed"] + gi + pi) % g.dim()
        if draw.get("stripe_largest"):
            dim = max(range(g.dim()), key=lambda k: g.shape[k])
        idx = [slice(None)] * g.dim()
        idx[dim] = slice(1, None, 2)
        g[tuple(idx)] = 0.0
    gd = draw["groups"][gi].get("dtypes") if gi < len(draw["groups"]) else None
    return g.to(DT[gd[pi]] if gd else DT[draw["dtype"]])


def pc_config(g):
    from distributed_shampoo import shampoo_types as st
    import matrix_functions_types as mt
    m = g.get("method", "eigen" if g["kind"] == "shampoo" else "eigh")
    if g["kind"] == "shampoo":
        amort = {"eigen": lambda: mt.EigenConfig(exponent_multiplier=g.get("mult", 1.0)),
                 "eigen_stab": lambda: mt.EigenConfig(exponent_multiplier=g.get("mult", 1.0), enhance_stability=True),
                 "newton": lambda: mt.CoupledNewtonConfig(),
                 "higher": lambda: mt.CoupledHigherOrderConfig()}[m]()
        return st.ShampooPreconditionerConfig(amortized_computation_config=amort,
                                              num_tolerated_failed_amortized_computations=g["tol"],
                                              ignored_dims=list(g.get("ignored", [])))
    amort = mt.EighEigenvectorConfig() if m == "eigh" else mt.QRConfig(max_iterations=g.get("qr_iters", 1),
                                                                      tolerance=g.get("qr_tol", 1e-5))
    return st.EigenvalueCorrectedShampooPreconditionerConfig(amortized_computation_config=amort,
                                                             num_tolerated_failed_amortized_computations=g["tol"],
                                                             ignored_dims=list(g.get("ignored", [])))


def graft_config(g):
    from distributed_shampoo import shampoo_types as st
    gr = g.get("graft")
    if not gr:
        return None
    t = gr["type"]
    if t == "sgd":
        return st.SGDGraftingConfig()
    if t == "adagrad":
        return st.AdaGradGraftingConfig(epsilon=gr["eps"])
    if t == "rmsprop":
        return st.RMSpropGraftingConfig(beta2=gr["beta2"], epsilon=gr["eps"])
    return st.AdamGraftingConfig(beta2=gr["beta2"], epsilon=gr["eps"])


def _styled(g, v, key):
    """How a hyperparameter VALUE is handed to the optimizer (g["hyper_style"]): as a float (default), the learning rate as a 0-D
    tensor that schedulers later change IN PLACE ("tensor_lr"), or integral values as Python ints ("int": lr=1, weight_decay=0)."""
    style = g.get("hyper_style", "float")
    if style == "tensor_lr" and key == "lr":
        return torch.tensor(float(v))
    if style == "int" and key in ("lr", "wd", "dampening") and float(v).is_integer():
        return int(v)
    return v


def group_kwargs(g):
    kw = _group_kwargs(g)
    kw["lr"] = _styled(g, kw["lr"], "lr")
    kw["weight_decay"] = _styled(g, kw["weight_decay"], "wd")
    kw["dampening"] = _styled(g, kw["dampening"], "dampening")
    return kw


def _group_kwargs(g):
    return dict(
        lr=g["lr"][g.get("lr0", 1)], betas=(g["b1"][g.get("b10", 1)], g["beta2"]), beta3=g.get("beta3", -1.0), epsilon=g["eps"],
        momentum=g["mom"][g.get("mom0", 1)], dampening=g["dampening"], weight_decay=g["wd"][g.get("wd0", 0)],
        max_preconditioner_dim=g["maxdim"], precondition_frequency=g["freq"], start_preconditioning_step=g["start"],
        inv_root_override=g.get("override", 0), use_nesterov=g["nesterov"], use_bias_correction=g["bias_corr"],
        use_decoupled_weight_decay=g["decoupled"], grafting_config=graft_config(g), use_merge_dims=g["merge"],
        preconditioner_config=pc_config(g))


def build(draw, params=None, pt2=None, distributed_config=None):
    """Construct the real optimizer: group 0's settings are the constructor defaults, the others param-group dicts."""
    from distributed_shampoo.distributed_shampoo import DistributedShampoo
    params = params or make_params(draw)
    gs = draw["groups"]
    kw0 = group_kwargs(gs[0])
    pgs = [{"params": params[0]}]
    for g, ps in zip(gs[1:], params[1:]):
        kw = group_kwargs(g)
        d = {"params": ps}
        for k_ctor, k_group in (("lr", "lr"), ("betas", "betas"), ("beta3", "beta3"), ("epsilon", "epsilon"), ("momentum", "momentum"),
                                ("dampening", "dampening"), ("weight_decay", "weight_decay"),
                                ("max_preconditioner_dim", "max_preconditioner_dim"),
                                ("precondition_frequency", "precondition_frequency"),
                                ("start_preconditioning_step", "start_preconditioning_step"),
                                ("inv_root_override", "inv_root_override"), ("use_nesterov", "use_nesterov"),
                                ("use_bias_correction", "use_bias_correction"),
                                ("use_decoupled_weight_decay", "use_decoupled_weight_decay"),
                                ("grafting_config", "grafting_config"), ("use_merge_dims", "use_merge_dims"),
                                ("preconditioner_config", "preconditioner_config")):
            d[k_group] = kw[k_ctor]
        if g.get("beta3", -1.0) == -1.0:
            d.pop("beta3")                       # leave unset: must inherit the RESOLVED optimizer-level value
            # (the reference then uses group 0's resolved beta3, as the property states)
        g0 = gs[0]
        start0 = g0["start"] if g0["start"] != -1 else g0["freq"]
        if g["start"] == start0:
            d.pop("start_preconditioning_step")  # unset start step: inherits the resolved optimizer-level value (same number)
        pgs.append(d)
    opt = DistributedShampoo(pgs, preconditioner_dtype=DT[draw["pdtype"]], shampoo_pt2_compile_config=pt2,
                             distributed_config=distributed_config, **kw0)
    return opt, params


# ---------------------------------------------------------------------------------------------------------
# projection
def block_layout(opt, gi):
    """[(param index in group, block key, block tensor)] in local order, read from the distributor."""
    from distributed_shampoo.shampoo_types import DISTRIBUTOR
    dist = opt._per_group_state_lists[gi][DISTRIBUTOR]
    out = []
    plist = opt.param_groups[gi]["params"]
    for blk, info in zip(dist.local_blocked_params, dist.local_block_info_list):
        pidx = next(i for i, p in enumerate(plist) if p is info.param)
        out.append((pidx, info.composable_block_ids[1], blk))
    return out


def abstract_group(opt, gi, g):
    """The spec's group config, derived from the REAL block structure."""
    lay = block_layout(opt, gi)
    ignored = set(g.get("ignored", []))
    return {
        "np": len(g["shapes"]),
        "pOf": [p + 1 for p, _, _ in lay],
        "nf": [sum(1 for d in range(b.dim()) if d not in ignored) for _, _, b in lay],
        "freq": g["freq"], "start": g["start"] if g["start"] != -1 else g["freq"], "tol": g["tol"],
        "graft": bool(g.get("graft")), "kind": g["kind"],
        "hasFilt": g["b1"][g.get("b10", 1)] != 0.0, "hasMom": g["mom"][g.get("mom0", 1)] != 0.0, "wd0": g.get("wd0", 0),
    }


def ref_blocks(opt, gi, g):
    """Block metadata for the numeric reference: slices of the merged view, preconditioned dims.  Derived from the block VIEWS
    themselves (storage offset and strides relative to the parameter), not from private attributes of the distributor."""
    lay = block_layout(opt, gi)
    plist = opt.param_groups[gi]["params"]
    ignored = set(g.get("ignored", []))
    out = []
    for pidx, _, blk in lay:
        p = plist[pidx]
        numel = p.numel()
        strides = list(blk.stride())
        if blk.dim() == 0:
            merged, slices = (), ()
        else:
            # the merged view is contiguous: its dims follow from consecutive stride ratios
            merged = [numel // strides[0] if strides[0] else 1] + [strides[i - 1] // strides[i] for i in range(1, len(strides))]
            off = blk.storage_offset() - p.storage_offset()
            starts = []
            for st_ in strides:
                starts.append(off // st_)
                off = off % st_
            merged = tuple(int(x) for x in merged)
            slices = tuple((int(s), int(l)) for s, l in zip(starts, blk.shape))
        out.append({"param": pidx, "merged": merged, "slices": slices,
                    "pdims": [d for d in range(blk.dim()) if d not in ignored]})
    return out


def tensor_hash(t) -> str:
    t = t.detach()
    if hasattr(t, "to_local"):
        t = t.to_local()
    if t.is_floating_point() and t.numel() and bool(torch.isnan(t).any()):
        # every NaN is the same NaN (sign and payload bits are not a property of the computation)
        t = torch.where(torch.isnan(t), torch.full_like(t, float("nan")), t)
    return hashlib.sha1(t.contiguous().reshape(-1).view(torch.uint8).numpy().tobytes()).hexdigest()[:16] if t.numel() else "empty"


def block_state_tensors(opt, gi):
    """{(block id 1-based, name): tensor} for every checkpointable tensor of every block, plus the block's param view."""
    out = {}
    plist = opt.param_groups[gi]["params"]
    for b, (pidx, key, blk) in enumerate(block_layout(opt, gi), start=1):
        st = opt.state[plist[pidx]].get(key, {})
        out[(b, "param")] = blk
        sh = st.get("shampoo")
        if sh is not None:
            for k, t in enumerate(sh.factor_matrices, start=1):
                out[(b, f"fac{k}")] = t
            roots = getattr(sh, "inv_factor_matrices", None)
            if roots is None:
                roots = getattr(sh, "factor_matrices_eigenvectors", ())
            for k, t in enumerate(roots, start=1):
                out[(b, f"root{k}")] = t
            if hasattr(sh, "corrected_eigenvalues"):
                out[(b, "cev")] = sh.corrected_eigenvalues
        for name, key2 in (("filt", "filtered_grad"), ("mom", "momentum"), ("graft", "adagrad")):
            if key2 in st:
                out[(b, name)] = st[key2]
    return out


def snapshot(opt, gi):
    return {k: tensor_hash(v) for k, v in block_state_tensors(opt, gi).items()}


def group_step_value(opt, gi):
    p0 = opt.param_groups[gi]["params"][0]
    st = opt.state[p0]
    if "step" in st:
        return int(st["step"].item())
    # a tree that does not keep this group's counter in optimizer.state (seed C09-R4A): read the counter the step function uses, so the
    # comparison that owns the property (C09: saved state complete / resumed trajectory) reports it instead of the projection crashing
    return int(opt._per_group_state_lists[gi]["step"].item())


def masked_lists(opt, gi):
    """Which blocks each masked list currently refers to (tensor identity against the local lists); None if not projectable."""
    try:
        from distributed_shampoo import shampoo_types as st
        sl = opt._per_group_state_lists[gi]
        dist = sl[st.DISTRIBUTOR]
        local = list(dist.local_blocked_params)

        def ids(lst, ref):
            pos = {id(t): i + 1 for i, t in enumerate(ref)}
            return [pos.get(id(t), 0) for t in lst]
        out = {"dMP": ids(dist.local_masked_blocked_params, local), "mP": ids(sl[st.MASKED_BLOCKED_PARAMS], local)}
        pl = sl[st.SHAMPOO_PRECONDITIONER_LIST]
        out["mK"] = ids(pl._masked_kronecker_factors_list, pl._local_kronecker_factors_list)
        gl = sl.get(st.GRAFTING_PRECONDITIONER_LIST)
        if gl is not None and hasattr(gl, "_masked_preconditioner_list"):
            out["mG"] = ids(gl._masked_preconditioner_list, gl._local_preconditioner_list)
        if st.FILTERED_GRAD_LIST in sl:
            out["mF"] = ids(sl[st.MASKED_FILTERED_GRAD_LIST], sl[st.FILTERED_GRAD_LIST])
        if st.MOMENTUM_LIST in sl:
            out["mM"] = ids(sl[st.MASKED_MOMENTUM_LIST], sl[st.MOMENTUM_LIST])
        # failure counters (local list and its masked projection), if the implementation keeps them under these names
        lc = getattr(pl, "_local_failed_amortized_computation_counter_list", None)
        mc = getattr(pl, "_masked_failed_amortized_computation_counter_list", None)
        if lc is not None and mc is not None:
            out["lCnt"] = [int(x) for x in lc]
            out["mCnt"] = [int(x) for x in mc]
        return out
    except Exception:
        return None


def set_hyper(opt, gi, g, key, idx):
    grp = opt.param_groups[gi]
    if key == "mom":
        grp["momentum"] = g["mom"][idx]
    elif key == "b1":
        grp["betas"] = (g["b1"][idx], grp["betas"][1])
    elif key == "wd":
        grp["weight_decay"] = g["wd"][idx]
    elif key == "freq":
        grp["precondition_frequency"] = int(idx)          # the value itself, not an index
    elif key == "lr":
        if isinstance(grp["lr"], torch.Tensor):
            grp["lr"].fill_(g["lr"][idx])          # what torch's LR schedulers do with a tensor learning rate
        else:
            grp["lr"] = g["lr"][idx]
    else:
        raise KeyError(key)


def hyper_equals(opt, gi, g, key, idx) -> bool:
    """Is param_groups[gi][key] the value number `idx` of the draw's table?"""
    grp = opt.param_groups[gi]
    if key == "mom":
        return grp["momentum"] == g["mom"][idx]
    if key == "b1":
        return grp["betas"][0] == g["b1"][idx]
    if key == "wd":
        return grp["weight_decay"] == g["wd"][idx]
    if key == "lr":
        return float(grp["lr"]) == g["lr"][idx]
    if key == "freq":
        return grp["precondition_frequency"] == idx
    raise KeyError(key)
