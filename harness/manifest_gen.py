"""Regenerates /verif/MANIFEST.json from the table below (single source of truth for the interface file)."""
import json
from pathlib import Path

VERIF = Path(__file__).resolve().parent.parent
BASELINE_OFF = ("cd /repo && env -u SHAMPOO_VERIF /venv/bin/python -m pytest -ra -q -p no:cacheprovider --timeout=900 "
                "--continue-on-collection-errors")

CHECKS = {}
NOT_YET = {}


def check(pid, category, text, note, technique, design_ref):
    CHECKS[pid] = dict(category=category, text=text, note=note, technique=technique, design_ref=design_ref)


check("C05", "model_checking",
      "TLC checks the declarative tiling properties (exactly-once cover, row-major order, dims bounded, block order, greedy "
      "adjacent merging) on the TLA+ transcription of merge/blocking for every shape in the bounds; the same TLA+ operators, "
      "evaluated by TLC, are the oracle the real Distributor's parameter and gradient blocks are compared against on the "
      "exhaustive case set plus random large shapes, also with parameters / gradients held as offset views, transposed tensors or strided "
      "slices of larger buffers (a layout that cannot be viewed may only be refused); blocked-vs-presplit metamorphic optimizer runs cover the invariance part.",
      "Trusted: TLC's evaluator, the JSON bridge, torch view semantics. Exhaustive only within the stated bounds.",
      "TLA+ spec (Blocking/BlockingMC) model-checked by TLC + spec-as-oracle conformance against the real Distributor",
      "DESIGN.md §5 C05")


check("C14", "model_checking",
      "TLC checks partition, the largest-first/least-loaded rule, the 4/3*OPT bound (OPT by brute force), the spread bound and the "
      "buffer-view layout invariants on the TLA+ transcription of the assignment for every size sequence in the bounds; the same "
      "operators are the oracle for the three real copies of _distribute_buffer_sizes / _construct_distributed_buffers.",
      "Trusted: TLC evaluator, JSON bridge. The real methods are called on a stub self carrying only the attributes they read.",
      "TLA+ spec (Assign/AssignMC) model-checked by TLC + spec-as-oracle conformance on all three copies", "DESIGN.md §5 C14")
check("C15", "model_checking",
      "TLC checks Partition, ValidPiece and minimality (dynamic programming over all valid slabs) on the TLA+ transcription of "
      "split-tensor-block recovery for every shape / range in the bounds; the transcription is the oracle for both real copies "
      "(offset, length, shape, view-of-shard, content), exhaustively on small shapes and on seeded random large ones.",
      "Trusted: TLC evaluator, JSON bridge, torch view semantics.",
      "TLA+ spec (SplitRecovery/SplitRecoveryMC) model-checked by TLC + spec-as-oracle conformance on both copies", "DESIGN.md §5 C15")
check("C16", "model_checking",
      "TLC checks round-trip, drops-only-leafless and injectivity of the flat-key model for every small nested dict over a hostile "
      "key alphabet (quotes, separators, int vs str, lone surrogates vs the astral character they encode: the escaped encoding EncAscii is "
      "shown NOT injective, the repaired one is); the spec's Flatten/Leafful/ModuleState, evaluated by TLC, are compared with the real flatten/unflatten and "
      "OptimizerModule.state_dict/load_state_dict on exhaustive small and random deep structures (identity of tensor objects included; "
      "non-ASCII, bool and large-int keys; transposed, 0-D, empty, strided and integer tensors).",
      "The real flat-key text is only required to be injective and to round-trip, not to equal the spec's JSON model.",
      "TLA+ spec (StateDict/StateDictMC) model-checked by TLC + spec-as-oracle conformance", "DESIGN.md §5 C16")
check("C17", "model_checking",
      "The documented domain is a finite decision table in TLA+ (Ctor); TLC checks its sanity invariants over all one- and "
      "two-at-a-time variations and evaluates Outcome/Resolved for every case, which must equal the real constructor's exception "
      "class and resolved beta3 / start step (also inherited by a second param group).",
      "Boundary grid per hyperparameter: below, boundary, interior, above, NaN, +-inf; 3 baselines.",
      "TLA+ decision table (Ctor/CtorMC) checked by TLC + spec-as-oracle conformance against the real constructor", "DESIGN.md §5 C17")

_OPT_NOTE = ("Trusted: TLC; the float64 closed-form reference (harness/refopt.py, no repo imports) for numbers; torch semantics. "
             "Exhaustive only within the stated call/block bounds; concrete draws are sampled (seeded).")
check("C01", "model_checking",
      "spec/ShampooStep+ShampooOpt model the step as provenance over buffers; TLC checks RefreshTiming / RefreshComplete / OncePerStep / "
      "StepCounter over all mask histories, refresh schedules and hyper-schedule changes within bounds. TLC-simulated behaviours are replayed "
      "into the real optimizer and every state tensor is compared with a float64 reference whose control decisions are read from the TLC "
      "states; observed traces are validated by TLC (ShampooTrace); two-group runs are compared bitwise with separate optimizers.",
      _OPT_NOTE, "TLA+ spec model-checked by TLC + behaviour replay with spec-driven numeric reference + TLC trace validation", "DESIGN.md §5 C01")
check("C02", "model_checking",
      "ShampooOpt with Graft=TRUE generates warm-up lengths and mask histories (TLC); each is replayed on the real optimizer and on the "
      "corresponding torch.optim optimizer over the unblocked parameters (rtol 1e-12, dyadic hyperparameters); after the switch the per-block "
      "step norm and direction are checked; traces (use-graft flag per step) are validated by TLC.",
      "torch.optim 2.5.1 is the oracle for the warm-up phase. " + _OPT_NOTE,
      "TLA+ spec (phase switch) checked by TLC + replay against torch.optim + TLC trace validation", "DESIGN.md §5 C02")
check("C03", "model_checking",
      "Kind=soap in ShampooStep: basis refresh schedule with per-factor failures, BasisUse (rotate iff every basis exists) checked by TLC; "
      "replays check every stored basis at every refresh (orthonormal; eigh: diagonalises the stored factor; QR: equals the k-iteration, "
      "tolerance-controlled orthogonal-iteration update of the previous basis; ordering; written only on schedule) and "
      "the rotated-Adam recurrences against the float64 reference given the stored bases; dtype pairings validated by TLC.",
      _OPT_NOTE, "TLA+ spec model-checked by TLC + behaviour replay with basis-validity checks + TLC trace validation", "DESIGN.md §5 C03")
check("C04", "model_checking",
      "The mask mechanism (two selector caches, masked lists re-compressed on selector change) is modelled as coded; TLC checks Frame, "
      "StepCounter, Alignment and absence of list-length crashes over every gradient-presence history x hyper schedule x fault script in "
      "bounds; replays compare bitwise hashes of every tensor of every absent parameter, masked-list projections by tensor identity and "
      "step counters (trace validated by TLC); numeric mismatches count only if they depend on the presence pattern.",
      _OPT_NOTE, "TLA+ spec model-checked by TLC + behaviour replay (bitwise frame) + TLC trace validation", "DESIGN.md §5 C04")
check("C13", "model_checking",
      "The failure mechanism is modelled exactly as coded next to a ghost run-length; TLC checks RaiseIffRun, NoParamChangeOnRaise, "
      "KeepPreviousOnFail over every outcome script x mask history x tolerance in bounds; replays inject scripted outcomes at the matrix "
      "routines (keyed by the factor they are called for) and compare exception class, kept roots (bitwise), untouched parameters and "
      "finiteness of stored roots in their stored dtype (16-bit parameters, float32 parameters with float64 factors and tiny epsilon); injected "
      "failures rotate through ten exception classes; traces validated by TLC.",
      _OPT_NOTE, "TLA+ spec model-checked by TLC (fault enumeration) + fault-injection replay + TLC trace validation", "DESIGN.md §5 C13")

check("C09", "model_checking",
      "spec/ShampooResume is a twin run: an uninterrupted copy and a copy whose durable state is saved and loaded into a fresh optimizer "
      "(every volatile variable reset) at an arbitrary point; TLC checks ResumeEquivalence for every mask history, hyper schedule and stop "
      "point in bounds, any number of generations. Replays do the real save -> bytes -> fresh optimizer -> load -> continue (half of them once "
      "more, half-way) at EVERY stop point and compare every tensor bitwise with the "
      "uninterrupted run; mutated checkpoints are compared with the spec's LoadOutcome table (evaluated by TLC).",
      "Serial layout; fault-free outcomes (failure counters are deliberately not checkpointed). " + _OPT_NOTE,
      "TLA+ twin-run spec model-checked by TLC + real save/load replay (bitwise) + spec-as-oracle load-outcome table", "DESIGN.md §5 C09")

check("C18", "translation_validation",
      "Translation validation of the compiled step: every TLC-simulated behaviour of ShampooOpt (phase switch, refresh steps, mask changes "
      "that force recompilation, tolerated failures, hyper changes incl. scheduler moves over all groups, Save / Load of a checkpoint into "
      "the live optimizers - rollbacks preferred) is executed by the eager optimizer and by optimizers compiled with the "
      "eager / aot_eager backends in static, dynamic and auto-dynamic mode; all parameters and state tensors must be bitwise equal after "
      "every step, a run only counts if dynamo reports compiled frames, and the compiled run's trace is validated by TLC against the spec.",
      "CPU only; inductor / CUDA not exercised. Behaviours are sampled (seeded TLC simulation); edge classes covered are listed in the evidence.",
      "TLC-generated behaviours + eager-vs-compiled bitwise comparison + TLC trace validation of the compiled run", "DESIGN.md §5 C18")

check("C06", "model_checking",
      "spec/ShampooDist models W ranks in groups of GS with one gather per group and step whose completion requires every member blocked "
      "in an identically-signed call; TLC checks deadlock freedom, liveness (NoRankLeftWaiting), SerialEquivalence, ReplicaAgreement, "
      "OwnerUnique and CreationAgreement over every mask history and interleaving for W<=4, with one or two parameter groups (one gather "
      "phase per group, signatures differ). The real DDPDistributor + optimizer run on simulated ranks (thread-per-rank process group with "
      "arrival gates and exact deadlock detection; float32, float64, 16-bit and mixed-dtype parameter groups, one or two groups); every rank after every step is "
      "bitwise equal to the serial optimizer whose communicated quantity is rounded through the communication dtype; per-rank logs of "
      "group creations and gathers are validated by TLC (DistTrace), which also names the deviation that explains a rejected log.",
      "The threaded process group stands in for the transport (a 2-4 process gloo smoke run was used to validate the repair of D5b). "
      "Exhaustive for W<=4 on the model; W<=8 sampled on the real code.",
      "TLA+ spec model-checked by TLC (safety + liveness) + simulated-rank replay vs rounded-serial oracle + TLC validation of collective logs",
      "DESIGN.md §5 C06")

check("C07", "model_checking",
      "spec/SplitRecovery.FlatShards + Recover: TLC checks that the recovered pieces of all shard ranks partition every parameter "
      "(ExactlyOnceAcrossShards) for every shape list in bounds; ShampooDist covers one replicate column (HSDP); spec/MeshMC checks, for every "
      "arrangement of the ranks in a 2-D mesh and every group size, that all ranks create the same DeviceMeshes in the same order and that a "
      "block's state lives where its owner's group rank points (the per-rank mesh-creation logs of the simulated runs, incl. meshes whose "
      "replicate dimension is not ascending, are validated by TLC against DistCore!MeshMissesC). The spec's shard metadata "
      "and pieces (evaluated by TLC) drive the real FSDPDistributor / HSDPDistributor on simulated ranks; the oracle is the serial "
      "optimizer on the recovered sub-tensors as independent parameters (communicated quantity rounded for HSDP), bitwise after every "
      "step on every rank; per-column gather logs are validated by TLC.",
      "Shard boundaries come from the spec's flat-parameter model; real FSDP wrapping is not in the loop. Threaded process group as transport.",
      "TLA+ spec model-checked by TLC + spec-as-oracle shard layout + simulated-rank replay (bitwise) + TLC validation of collective logs",
      "DESIGN.md §5 C07")
check("C08", "model_checking",
      "spec/SplitRecovery.Dim0Pieces: TLC checks that dim-0 chunking gives one slab per rank partitioning every parameter; ShampooDist covers "
      "one replicate column (hybrid); spec/MeshMC: DeviceMesh creation agreement and state placement for every arrangement of a 2-D mesh "
      "(per-rank mesh-creation logs validated by TLC, also on meshes whose replicate dimension is not ascending). Real DTensor parameters and gradients (built from the spec's slabs) run under FullyShardDistributor / "
      "HybridShardDistributor on simulated ranks; oracle: the serial optimizer on the local slabs (rounded for hybrid), bitwise after every "
      "step on every rank incl. ranks with empty local shards of some parameters and gradients that are present but exactly zero on a "
      "rank's rows; gather logs validated by TLC.",
      "DTensors are built with from_local (no collectives). Threaded process group as transport.",
      "TLA+ spec model-checked by TLC + spec-as-oracle shard layout + simulated-rank replay (bitwise) + TLC validation of collective logs",
      "DESIGN.md §5 C08")

_MAT_NOTE = ("Restricted claim (DESIGN §9): TLC decides dispatch / rejection tables, the regularised spectrum every path inverts and the facts that "
             "follow by order reasoning, and the solvers' control state machines; floating-point accuracy is MEASURED at TLC-supplied case classes "
             "against Q diag(Reg^(-1/r)) Q^T with a bound whose constant was frozen from the unchanged tree.")
check("C10", "exploration",
      "spec/MatrixFn + MatrixSolvers: dispatch tables, transfer functions over exact rationals (TransferAgreement, StabilityIsIdentity, "
      "OrderPreserved) and solver state machines (FlagSound, GuardSound, Tf32Restored, termination) checked by TLC; for every sampled case class "
      "TLC returns the dispatch outcome and the regularised spectrum, the harness measures the real routine against it; solver return records "
      "are validated by TLC.",
      _MAT_NOTE, "TLA+ spec (dispatch, transfer functions, solver machines) checked by TLC + spec-as-oracle numeric exploration + TLC validation of solver records",
      "DESIGN.md §5 C10, §9")
check("C11", "exploration",
      "EigenPositivity / upper bound by order reasoning on the spec's transfer functions for spectra with negative, zero and repeated "
      "eigenvalues (TLC); concretised degenerate matrices: finite, symmetric, positive definite, lambda_max <= eps^(-1/r), commutation, "
      "orthogonal equivariance, value equal to the spec's regularised spectrum; shape rejection table.",
      _MAT_NOTE, "TLA+ transfer-function facts checked by TLC + spec-as-oracle numeric exploration on degenerate inputs", "DESIGN.md §5 C11, §9")
check("C12", "exploration",
      "Dispatch of matrix_eigenvectors as a TLA+ table evaluated by TLC and compared with the real routine on every descriptor; numeric "
      "exploration of orthonormality, diagonalisation, ordering, agreement with a float64 reference orthogonal iteration and the fixed-point "
      "property at sampled spectra / estimates / iteration budgets.",
      _MAT_NOTE, "TLA+ dispatch table checked by TLC + numeric exploration against float64 references", "DESIGN.md §5 C12, §9")

ALL = [f"C{i:02d}" for i in range(1, 19)]


def main():
    m = {
        "version": 1,
        "setup_cmd": "./check setup",
        "hooks": {
            "guard": "SHAMPOO_VERIF",
            "enable": "no in-repo hooks: the harness wraps public surfaces from outside; ./check exports SHAMPOO_VERIF=1 and "
                      "PYTHONPATH=/repo so every run imports the current working tree",
            "baseline_off_cmd": BASELINE_OFF,
            "source_commits": [],
            "add_only": True,
        },
        "engines": [
            {"name": "tlc-mc", "path": "harness/tlc.py", "serves_properties": sorted(CHECKS),
             "kind_free_text": "TLC model checking of the TLA+ modules under spec/"},
            {"name": "tlc-oracle", "path": "harness/tlc.py", "serves_properties": sorted(CHECKS),
             "kind_free_text": "TLC evaluates spec operators on harness inputs; outputs compared with the real code"},
            {"name": "replay", "path": "harness/replay.py", "serves_properties": ["C01", "C02", "C03", "C04", "C09", "C13", "C18"],
             "kind_free_text": "TLC-generated behaviours (simulate and bounded-exhaustive enumeration) stepped through the real optimizer; float64 reference driven by the spec's control decisions"},
            {"name": "trace-validation", "path": "harness/behaviours.py", "serves_properties": ["C01", "C02", "C03", "C04", "C06", "C07", "C08", "C10", "C13", "C18"],
             "kind_free_text": "traces recorded from the real code (drivers, long random histories, the repository's own tests, simulated ranks, solver returns) validated by TLC against spec/ShampooTrace, DistTrace, MatrixFn"},
            {"name": "simdist", "path": "harness/simdist.py", "serves_properties": ["C06", "C07", "C08", "C09", "C14"],
             "kind_free_text": "thread-per-rank simulated world with arrival gates and exact deadlock detection; unmodified distributors"},
        ],
        "checks": [],
        "not_applicable": [],
        "notes": "Generated by harness/manifest_gen.py. Exit codes: 0 held, 1 violation (VIOLATION line), 2 machinery failure. Known findings: known_findings.json (D5a rank starvation for C06/C07/C08; nine defects fixed by fix: commits in /repo). Beyond the listed properties: ./check GROWTH (spec/Quantized). Sensitivity self-test over mutants/ and seeded/: tools/selftest.py (uses scratch worktrees through VERIF_REPO, never /repo).",
    }
    for pid in ALL:
        if pid in CHECKS:
            c = CHECKS[pid]
            m["checks"].append({
                "property_id": pid,
                "quick_cmd": f"./check {pid} --tier quick",
                "thorough_cmd": f"./check {pid} --tier thorough",
                "evidence_file": f"/verif/evidence/{pid}.json",
                "replay_cmd_template": f"./check {pid} --replay {{path}}",
                "engine": "tlc-mc+tlc-oracle",
                "level_claimed": {"category": c["category"], "text": c["text"], "design_ref": c["design_ref"]},
                "level_note": c["note"],
                "technique": c["technique"],
            })
        else:
            m["not_applicable"].append({"property_id": pid, "reason": NOT_YET.get(
                pid, "check not built yet in this round (planned in DESIGN.md §5); nothing is claimed for it until it is")})
    (VERIF / "MANIFEST.json").write_text(json.dumps(m, indent=1) + "\n")


if __name__ == "__main__":
    main()
