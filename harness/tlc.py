"""Thin runner around TLC (tla2tools 1.8.0): model-check, simulate, oracle evaluation, trace validation.

Every invocation gets a private work directory under /verif/out/tlc/<tag>-<pid>-<n>/ holding the generated
MC wrapper module, its .cfg, TLC's metadir and the JSON files exchanged with the spec.  Spec modules
are found through -DTLA-Library=/verif/spec, so there is exactly one copy of every module.
"""
from __future__ import annotations

import itertools
import json
import os
import re
import shutil
import subprocess
import time
from dataclasses import dataclass, field
from pathlib import Path

VERIF = Path(__file__).resolve().parent.parent
SPEC_DIR = VERIF / "spec"
OUT_DIR = VERIF / "out" / "tlc"
JAR = "/opt/veriftools/tla/tla2tools.jar:/opt/veriftools/tla/CommunityModules-deps.jar"

_counter = itertools.count()


class TLCMachineryError(RuntimeError):
    """TLC crashed / could not parse: exit code 2 territory, never a property verdict."""


@dataclass
class TLCResult:
    stdout: str
    workdir: Path
    wall_s: float
    generated: int = 0
    distinct: int = 0
    depth: int = 0
    violated: list[str] = field(default_factory=list)  # names of violated invariants / properties
    deadlock: bool = False
    assumption_failed: bool = False
    printed: list[str] = field(default_factory=list)   # raw PrintT payloads (one per call)
    coverage: dict[str, tuple[int, int]] = field(default_factory=dict)  # action -> (distinct, total)
    errors: list[str] = field(default_factory=list)
    trace: list[str] = field(default_factory=list)     # counterexample states as text

    @property
    def ok(self) -> bool:
        return not (self.violated or self.deadlock or self.assumption_failed or self.errors)


def tla_value(v) -> str:
    """Python -> TLA+ literal (ints, bools, strings, lists -> sequences, dicts -> records/functions, sets)."""
    if isinstance(v, bool):
        return "TRUE" if v else "FALSE"
    if isinstance(v, int):
        return str(v)
    if isinstance(v, str):
        return '"' + v.replace("\\", "\\\\").replace('"', '\\"') + '"'
    if isinstance(v, (list, tuple)):
        return "<<" + ", ".join(tla_value(x) for x in v) + ">>"
    if isinstance(v, (set, frozenset)):
        return "{" + ", ".join(tla_value(x) for x in sorted(v, key=repr)) + "}"
    if isinstance(v, dict):
        if not v:
            return "<<>>"
        if all(isinstance(k, str) for k in v):
            return "[" + ", ".join(f"{k} |-> {tla_value(x)}" for k, x in v.items()) + "]"
        return "(" + " @@ ".join(f"{tla_value(k)} :> {tla_value(x)}" for k, x in v.items()) + ")"
    raise TypeError(f"cannot render {v!r} as a TLA+ value")


def make_workdir(tag: str) -> Path:
    d = OUT_DIR / f"{tag}-{os.getpid()}-{next(_counter)}"
    if d.exists():
        shutil.rmtree(d)
    d.mkdir(parents=True)
    return d


_RE_STATES = re.compile(r"(\d+) states generated, (\d+) distinct states found")
_RE_DEPTH = re.compile(r"The depth of the complete state graph search is (\d+)")
_RE_INV = re.compile(r"Invariant (\S+) is violated")
_RE_PROP = re.compile(r"(?:Action property|Temporal properties?|property) (\S+)? ?(?:is|were) violated", re.I)
_RE_COV = re.compile(r"^<(\w+) line \d+, col \d+ to line \d+, col \d+ of module (\w+)>: (\d+):(\d+)", re.M)


def _split_printed(stdout: str) -> list[str]:
    """Extract PrintT payloads that start with <<"TAG", ...>> by bracket matching (16 workers interleave lines)."""
    out = []
    i = 0
    n = len(stdout)
    while True:
        j = stdout.find('<<"', i)
        if j < 0:
            break
        depth = 0
        k = j
        in_str = False
        while k < n:
            c = stdout[k]
            if in_str:
                if c == "\\":
                    k += 1
                elif c == '"':
                    in_str = False
            elif c == '"':
                in_str = True
            elif stdout.startswith("<<", k):
                depth += 1
                k += 1
            elif stdout.startswith(">>", k):
                depth -= 1
                k += 1
                if depth == 0:
                    break
            k += 1
        out.append(stdout[j : k + 1])
        i = k + 1
    return out


def run(
    main_module: str,
    module_text: str,
    cfg_text: str,
    *,
    tag: str = "tlc",
    workers: int | str = 16,
    simulate: str | None = None,   # e.g. "num=200"
    depth: int | None = None,
    seed: int | None = None,
    env: dict[str, str] | None = None,
    timeout: int = 1800,
    coverage: bool = False,
    deque: bool = False,
    memqueue: bool = False,
    xss: str = "64m",
    xmx: str = "8g",
    keep: bool = False,
    extra_files: dict[str, str] | None = None,
    allow_errors: bool = True,
) -> TLCResult:
    wd = make_workdir(tag)
    (wd / f"{main_module}.tla").write_text(module_text)
    (wd / f"{main_module}.cfg").write_text(cfg_text)
    for name, text in (extra_files or {}).items():
        (wd / name).write_text(text)
    jopts = [f"-DTLA-Library={SPEC_DIR}", f"-Xss{xss}", f"-Xmx{xmx}", "-XX:+UseParallelGC"]
    if deque:
        jopts.append("-Dtlc2.tool.queue.IStateQueue=StateDeque")
    elif memqueue:
        # with a VIEW the variables themselves are never fingerprinted, so lazily evaluated function values are
        # never converted and TLC 1.8.0's disk queue crashes writing them (FcnLambdaValue.write NPE): keep the queue in memory
        jopts.append("-Dtlc2.tool.queue.IStateQueue=MemStateQueue")
    cmd = ["java", *jopts, "-cp", JAR, "tlc2.TLC", "-workers", str(workers), "-metadir", str(wd / "meta"),
           "-noGenerateSpecTE", "-config", f"{main_module}.cfg"]
    if simulate is not None:
        cmd += ["-simulate", simulate]
    if depth is not None:
        cmd += ["-depth", str(depth)]
    if seed is not None:
        cmd += ["-seed", str(seed)]
    if coverage:
        cmd += ["-coverage", "1"]
    cmd.append(f"{main_module}.tla")
    e = dict(os.environ)
    e.pop("JAVA_TOOL_OPTIONS", None)
    e.update(env or {})
    t0 = time.time()
    try:
        p = subprocess.run(cmd, cwd=wd, env=e, capture_output=True, text=True, timeout=timeout)
    except subprocess.TimeoutExpired as ex:
        raise TLCMachineryError(f"TLC timed out after {timeout}s in {wd}") from ex
    out = p.stdout + ("\n" + p.stderr if p.stderr else "")
    res = TLCResult(stdout=out, workdir=wd, wall_s=time.time() - t0)
    (wd / "tlc.out").write_text(out)
    ms = re.search(r"The number of states generated: (\d+)", out)
    if ms and simulate:          # simulation mode reports only the states generated along the sampled behaviours
        res.generated = int(ms.group(1))
        res.distinct = int(ms.group(1))
        res.depth = depth or 0
    for m in _RE_STATES.finditer(out):
        res.generated, res.distinct = int(m.group(1)), int(m.group(2))
    m = _RE_DEPTH.search(out)
    if m:
        res.depth = int(m.group(1))
    res.violated = _RE_INV.findall(out) + re.findall(r"The invariant of (\S+) is equal to FALSE", out)
    for m in re.finditer(r"Action property (\S+) is violated", out):
        res.violated.append(m.group(1))
    if "Temporal properties were violated" in out:
        res.violated.append("<temporal>")
    res.deadlock = "Deadlock reached" in out
    res.assumption_failed = bool(re.search(r"Assumption .* is false", out))
    for m in _RE_COV.finditer(out):
        res.coverage[f"{m.group(2)}!{m.group(1)}"] = (int(m.group(3)), int(m.group(4)))
    res.printed = _split_printed(out)
    if "Error:" in out:
        for line in out.splitlines():
            if line.startswith("Error:"):
                res.errors.append(line)
        # violations are reported as "Error: Invariant ... is violated" too: keep only the others
        res.errors = [x for x in res.errors if not re.search(
            r"Invariant \S+ is violated|Deadlock reached|Assumption .* is false|property \S* ?(is|were) violated|"
            r"Temporal properties were violated|The behavior up to this point|The following behavior|The invariant of \S+ is equal to FALSE", x)]
    if res.violated or res.deadlock:
        res.trace = re.findall(r"^State \d+:.*?(?=^State \d+:|^\d+ states generated|\Z)", out, re.S | re.M)
    parse_fail = "Parsing or semantic analysis failed" in out or "Could not find module" in out or "***Parse Error***" in out
    if parse_fail or (p.returncode not in (0, 10, 11, 12, 13) and not res.violated and not res.deadlock
                      and not res.assumption_failed and not res.errors):
        raise TLCMachineryError(f"TLC failed (rc={p.returncode}) in {wd}:\n{out[-3000:]}")
    if res.errors and not allow_errors:
        raise TLCMachineryError(f"TLC reported errors in {wd}:\n" + "\n".join(res.errors) + "\n" + out[-2000:])
    if not keep and res.ok:
        shutil.rmtree(wd, ignore_errors=True)
    return res


def oracle(main_module: str, module_text: str, cases, *, tag: str = "oracle", timeout: int = 1800, xss: str = "256m",
           extra_env: dict[str, str] | None = None, cfg: str = ""):
    """Engine O: `module_text` must contain  ASSUME JsonSerialize(IOEnv.OUT, <expr over JsonDeserialize(IOEnv.CASES)>)."""
    wd = make_workdir(tag + "-io")
    cases_f = wd / "cases.json"
    out_f = wd / "out.json"
    cases_f.write_text(json.dumps(cases))
    env = {"CASES": str(cases_f), "OUT": str(out_f)}
    env.update(extra_env or {})
    # no behaviour spec: TLC evaluates ASSUMEs only (cfg may bind constants)
    res = run(main_module, module_text, cfg, tag=tag, workers=1, env=env, timeout=timeout, xss=xss, allow_errors=False)
    if res.assumption_failed:
        raise TLCMachineryError(f"oracle assumption failed: {res.stdout[-2000:]}")
    if not out_f.exists():
        raise TLCMachineryError(f"oracle produced no output:\n{res.stdout[-3000:]}")
    data = json.loads(out_f.read_text())
    shutil.rmtree(wd, ignore_errors=True)
    return data, res


def cleanup():
    shutil.rmtree(OUT_DIR, ignore_errors=True)
