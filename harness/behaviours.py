"""ShampooOpt through TLC: exhaustive model checking of a configuration and behaviour generation (-simulate)."""
from __future__ import annotations

import json

from harness import tlc


def mc_module(cfg_groups, faults, moves, dev, name="MC_Opt", extends="ShampooOpt"):
    return f"""---- MODULE {name} ----
EXTENDS {extends}
MC_Cfg == {tlc.tla_value(cfg_groups)}
MC_Moves == {tlc.tla_value(set(tuple(m) for m in moves)) if moves else '{}'}
MC_Faults == {tlc.tla_value(set(faults)) if faults else '{}'}
MC_Dev == {tlc.tla_value(set(dev)) if dev else '{}'}
====
"""


def mc_cfg(maxcalls, emit, invariants, view="ViewLean", ckpt=False):
    return (f"SPECIFICATION Spec\nCONSTANTS Cfg <- MC_Cfg\n MaxCalls = {maxcalls}\n FaultKinds <- MC_Faults\n"
            f" HyperMoves <- MC_Moves\n Deviations <- MC_Dev\n Emit = {'TRUE' if emit else 'FALSE'}\n Ckpt = {'TRUE' if ckpt else 'FALSE'}\n"
            + (f"VIEW {view}\n" if view else "") + "CHECK_DEADLOCK FALSE\n" + "".join(f"INVARIANT {i}\n" for i in invariants))


def check(cfg_groups, maxcalls, faults=(), moves=(), dev=(), invariants=("NoViolation", "TypeOK"), timeout=1800, tag="opt-mc", ckpt=False,
          coverage=False):
    return tlc.run("MC_Opt", mc_module(cfg_groups, faults, moves, dev), mc_cfg(maxcalls, False, invariants, ckpt=ckpt),
                   tag=tag, timeout=timeout, memqueue=True, keep=False, coverage=coverage)


def simulate(cfg_groups, maxcalls, num, seed, faults=(), moves=(), dev=(), timeout=600, tag="opt-sim", ckpt=False):
    """N random behaviours of exactly `maxcalls` actions each, as lists of events (dicts)."""
    res = tlc.run("MC_Opt", mc_module(cfg_groups, faults, moves, dev),
                  mc_cfg(maxcalls, True, ("EmitInv", "NoViolation"), view=None, ckpt=ckpt),
                  tag=tag, timeout=timeout, simulate=f"num={num}", depth=maxcalls + 2, seed=seed, workers=1)
    behs = []
    seen = set()
    for p in res.printed:
        if not p.startswith('<<"BEH"'):
            continue
        body = p[len('<<"BEH", '):-2].strip()
        if body in seen:
            continue
        seen.add(body)
        if len(behs) >= 3 * num:          # the simulator evaluates the emitting invariant on every candidate successor: far more histories
            continue                      # than requested are printed; the first 3*num distinct ones are kept
        try:
            behs.append(normalise(json.loads(json.loads(body))))
        except Exception:
            continue
    return behs, res


def _seq(x):
    """ToJson renders empty functions / sequences inconsistently ({} or []); make everything a list."""
    if isinstance(x, dict) and not x:
        return []
    return x


def normalise(beh):
    for ev in beh:
        if ev["ev"] != "Step":
            continue
        for ob in ev["obs"]:
            if not ob.get("reached"):
                continue
            ob["rootAt"] = [_seq(r) for r in _seq(ob["rootAt"])]
            ob["active"] = _seq(ob["active"])
            ob["calls"] = _seq(ob["calls"])
            for k in list(ob["lists"]):
                ob["lists"][k] = _seq(ob["lists"][k])
        if "outc" in ev:
            ev["outc"] = [[{"inf": oc["inf"], "f": _seq(oc["f"])} for oc in _seq(go)] for go in ev["outc"]]
    return beh


def validate(traces, dev=(), chunk=150, timeout=1800):
    """Engine T / O: TLC runs spec/ShampooTrace over the given traces.  Each trace: {"cfg": [...], "events": [...]};
    Step events carry present/outc and, per group, the observed record (or {"has": false}).  Returns one result per
    trace: {"exp": [...], "bad": [...], "mism": [...], "accepted": bool}."""
    from concurrent.futures import ThreadPoolExecutor
    mod = ("---- MODULE TraceRun ----\nEXTENDS ShampooTrace\nMC_Dev == "
           + (tlc.tla_value(set(dev)) if dev else "{}") + "\n====\n")
    cfg = "CONSTANT Deviations <- MC_Dev\n"
    chunks = [traces[i:i + chunk] for i in range(0, len(traces), chunk)]
    with ThreadPoolExecutor(max_workers=12) as ex:
        outs = list(ex.map(lambda c: tlc.oracle("TraceRun", mod, c, tag="trace", cfg=cfg, timeout=timeout)[0], chunks))
    res = [r for o in outs for r in o]
    for r in res:
        r["exp"] = normalise(_seq(r["exp"]))
        r["mism"] = _seq(r["mism"])
        r["bad"] = _seq(r["bad"])
    return res


def inputs_only(beh):
    """Strip a behaviour to its inputs (for re-evaluation by TLC)."""
    out = []
    for ev in beh:
        if ev["ev"] != "Step":
            out.append(dict(ev))
        else:
            out.append({"ev": "Step", "present": ev["present"], "outc": ev["outc"], "obs": [{"has": False} for _ in ev["present"]]})
    return out


def enumerate_all(cfg_groups, depth, faults=(), moves=(), dev=(), timeout=900, tag="opt-enum", ckpt=False):
    """EVERY behaviour of exactly `depth` actions (bounded-exhaustive conformance): model checking with the history
    variable in the fingerprint makes the state graph the tree of behaviours; each leaf prints its history."""
    res = tlc.run("MC_Opt", mc_module(cfg_groups, faults, moves, dev),
                  mc_cfg(depth, True, ("EmitInv", "NoViolation"), view=None, ckpt=ckpt), tag=tag, timeout=timeout, workers=16, memqueue=True)
    behs, seen = [], set()
    for p in res.printed:
        if not p.startswith('<<"BEH"'):
            continue
        body = p[len('<<"BEH", '):-2].strip()
        if body in seen:
            continue
        seen.add(body)
        try:
            behs.append(normalise(json.loads(json.loads(body))))
        except Exception:
            continue
    return behs, res
