"""Shared plumbing of the property checks: context, evidence, violations / known findings, replay files."""
from __future__ import annotations

import hashlib
import json
import os
import sys
import time
from pathlib import Path

VERIF = Path(__file__).resolve().parent.parent
REPO = Path(os.environ.get("VERIF_REPO", "/repo"))
EVIDENCE_DIR = Path(os.environ.get("VERIF_EVIDENCE_DIR", VERIF / "evidence"))
REPLAY_DIR = Path(os.environ.get("VERIF_REPLAY_DIR", VERIF / "out" / "replay"))
KNOWN_FINDINGS = VERIF / "known_findings.json"


def load_known_findings() -> list[dict]:
    if not KNOWN_FINDINGS.exists():
        return []
    return json.loads(KNOWN_FINDINGS.read_text()).get("findings", [])


def _jsonable(x):
    if isinstance(x, dict):
        return {str(k): _jsonable(v) for k, v in x.items()}
    if isinstance(x, (list, tuple, set, frozenset)):
        return [_jsonable(v) for v in x]
    if isinstance(x, (str, int, float, bool)) or x is None:
        return x
    if hasattr(x, "item"):
        try:
            return x.item()
        except Exception:
            pass
    return repr(x)


class Ctx:
    """One run of one property check."""

    def __init__(self, prop: str, tier: str, seed: int, level: str):
        self.prop = prop
        self.tier = tier
        self.seed = seed
        self.level = level
        self.t0 = time.time()
        self.violations: list[dict] = []
        self.known_hits: dict[str, int] = {}
        self.coverage: dict = {"samples": []}
        self.assumptions: list[str] = []
        self.notes: list[str] = []
        self._known = [f for f in load_known_findings() if f.get("property") == prop and f.get("status") == "known"]
        self._printed_known: set[str] = set()
        self._seen_sig: set[str] = set()

    # ---- coverage accounting -------------------------------------------------------------------
    def add(self, key: str, n: int = 1):
        self.coverage[key] = int(self.coverage.get(key, 0)) + int(n)

    def put(self, key: str, value):
        self.coverage[key] = value

    def sample(self, s, limit: int = 6):
        if len(self.coverage["samples"]) < limit:
            self.coverage["samples"].append(_jsonable(s))

    def add_tlc(self, res, name: str | None = None):
        """Accumulate TLC's own counts (states = distinct, transitions = generated)."""
        self.add("states", res.distinct)
        self.add("transitions", res.generated)
        runs = self.coverage.setdefault("tlc_runs", [])
        runs.append({"name": name or "", "distinct": res.distinct, "generated": res.generated,
                     "depth": res.depth, "wall_s": round(res.wall_s, 2)})

    def assume(self, text: str):
        if text not in self.assumptions:
            self.assumptions.append(text)

    def note(self, text: str):
        self.notes.append(text)
        print(f"note: {text}", flush=True)

    # ---- violations ----------------------------------------------------------------------------
    def violation(self, what: str, signature: dict, replay: dict):
        """Report a failed comparison.  `signature` carries the specific facts used to match known findings."""
        sig = _jsonable(signature)
        for f in self._known:
            m = f.get("match", {})
            if m and all(sig.get(k) == v for k, v in m.items()):
                fid = f.get("id", f.get("what", "?"))
                self.known_hits[fid] = self.known_hits.get(fid, 0) + 1
                if fid not in self._printed_known:
                    self._printed_known.add(fid)
                    print(f"KNOWN-FINDING: property={self.prop} {fid}: {f.get('what', '')}", flush=True)
                return False
        payload = {"property": self.prop, "what": what, "signature": sig, "replay": _jsonable(replay),
                   "seed": self.seed, "tier": self.tier}
        h = hashlib.sha1(json.dumps(payload, sort_keys=True).encode()).hexdigest()[:12]
        key = json.dumps(sig, sort_keys=True)
        REPLAY_DIR.mkdir(parents=True, exist_ok=True)
        path = REPLAY_DIR / f"{self.prop}-{h}.json"
        path.write_text(json.dumps(payload, indent=1))
        self.violations.append({"what": what, "signature": sig, "replay": str(path)})
        if key not in self._seen_sig or len(self.violations) <= 20:
            print(f"VIOLATION property={self.prop} replay={path}", flush=True)
            w = what.encode("ascii", "backslashreplace").decode()
            print("  what: " + (w if len(w) <= 900 else w[:900] + f" ... [{len(w) - 900} more characters in the replay file]"), flush=True)
        self._seen_sig.add(key)
        return True

    # ---- evidence ------------------------------------------------------------------------------
    def finish(self) -> int:
        cov = dict(self.coverage)
        if not cov.get("samples"):
            cov["samples"] = ["(no case was generated)"]
        cov.setdefault("evaluations", 0)
        cov.setdefault("distinct_nontrivial", 0)
        cov.setdefault("rule", "")
        if cov.get("transitions", 1) == 0:
            cov.pop("transitions")
        if cov.get("states", 1) == 0:
            cov.pop("states")
        cov["known_findings_hit"] = self.known_hits
        if self.notes:
            cov["notes"] = self.notes
        ev = {
            "property_id": self.prop,
            "tier": self.tier,
            "seed": self.seed,
            "level": self.level,
            "coverage": _jsonable(cov),
            "assumptions": self.assumptions,
            "wall_s": round(time.time() - self.t0, 2),
            "violations": len(self.violations),
        }
        EVIDENCE_DIR.mkdir(exist_ok=True)
        (EVIDENCE_DIR / f"{self.prop}.json").write_text(json.dumps(ev, indent=1) + "\n")
        if self.violations:
            print(f"{self.prop}: {len(self.violations)} violation(s)", flush=True)
            return 1
        print(f"{self.prop}: held on everything explored "
              f"(evaluations={cov.get('evaluations')}, states={cov.get('states', 0)}, "
              f"traces={cov.get('traces_validated_against_impl', 0)}, {ev['wall_s']}s)", flush=True)
        return 0


def assert_repo_import():
    """The code under test must come from /repo's working tree (never an installed copy)."""
    sys.path.insert(0, str(REPO))
    import distributed_shampoo  # noqa

    p = Path(distributed_shampoo.__file__).resolve()
    if REPO.resolve() not in p.parents:
        raise RuntimeError(f"distributed_shampoo imported from {p}, expected under {REPO}")
