"""Engines R and T on the real optimizer.

A Runner steps the real DistributedShampoo through a sequence of inputs (gradient presence, scripted outcomes of the
matrix routine, param_groups changes) and produces
  * the OBSERVED trace in the vocabulary of spec/ShampooTrace (validated by TLC against the specification), and
  * checks that cannot be phrased over scalars: bitwise frame conditions, parameters untouched on a raising step,
    stored roots finite, and the numeric comparison of every state tensor with the float64 reference that is driven
    by the SPEC's control decisions (`expected` observation records).
"""
from __future__ import annotations

import math

import torch

from harness import faults, realopt, refopt

F64 = torch.float64


def classify_exception(ex):
    if ex is None:
        return "none"
    from distributed_shampoo.shampoo_types import PreconditionerValueError
    if isinstance(ex, PreconditionerValueError):
        return "value"
    if type(ex) is ValueError and "exceeded the allowed tolerance" in str(ex):
        return "tol"
    if str(ex) == "injected failure":
        return "other:injected failure propagated as " + type(ex).__name__      # a tolerated failure must never leave step()
    if isinstance(ex, (RuntimeError, AssertionError, ValueError, IndexError)) and not isinstance(ex, faults.InjectedFailure):
        return "len"   # a crash inside step(): the spec's only non-documented exception class is the list-length mismatch
    return "other:" + type(ex).__name__


def effective_beta3(draw, gi):
    g = draw["groups"][gi]
    if g.get("beta3", -1.0) != -1.0:
        return g["beta3"]
    g0 = draw["groups"][0]
    if gi > 0 and g0.get("beta3", -1.0) != -1.0:
        return g0["beta3"]
    src = g0 if gi > 0 else g
    return src["b1"][src.get("b10", 1)]


class Runner:
    def __init__(self, draw, pt2=None, numeric=True, opt=None, params=None, distributed_config=None):
        self.draw = draw
        if opt is None:
            opt, params = realopt.build(draw, pt2=pt2, distributed_config=distributed_config)
        self.opt, self.params = opt, params
        self.ng = len(draw["groups"])
        self.numeric = numeric and draw["dtype"] == "float64" and draw["pdtype"] == "float64"
        self.hy = [{"lr": g.get("lr0", 1), "mom": g.get("mom0", 1), "b1": g.get("b10", 1), "wd": g.get("wd0", 0), "freq": g["freq"]}
                   for g in draw["groups"]]
        self.abstract = [realopt.abstract_group(opt, gi, g) for gi, g in enumerate(draw["groups"])]
        self.meta = [realopt.ref_blocks(opt, gi, g) for gi, g in enumerate(draw["groups"])]
        self.refs = []
        if self.numeric:
            for gi, g in enumerate(draw["groups"]):
                hp = dict(g)
                hp.update(hasFilt=self.abstract[gi]["hasFilt"], hasMom=self.abstract[gi]["hasMom"])
                self.refs.append(refopt.GroupRef(hp, self.params[gi], self.meta[gi]))
        self.t = 0
        self.flags = {}
        self.root_at = [[[0] * n for n in ab["nf"]] for ab in self.abstract]
        self.poisoned = False
        self.trace = []          # observed events (ShampooTrace vocabulary)
        self._wrap_group_step()

    # ---- observation hooks (harness side only) ---------------------------------------------------------
    def _wrap_group_step(self):
        opt = self.opt
        try:
            inner = opt._per_group_step
            names = ["state_lists", "step", "lr", "beta1", "beta3", "weight_decay", "momentum_param", "dampening",
                     "grafting_config_not_none", "perform_amortized_computation", "use_decoupled_weight_decay",
                     "use_bias_correction", "use_grafting_method", "use_nesterov"]

            def wrapped(*a, **kw):
                rec = dict(zip(names, a))
                rec.update(kw)
                gi = next(i for i, sl in enumerate(opt._per_group_state_lists) if sl is rec["state_lists"])
                self.flags[gi] = {"refresh": bool(rec["perform_amortized_computation"]),
                                  "usegraft": bool(rec["use_grafting_method"])}
                self._current_group = gi
                try:
                    return inner(*a, **kw)
                finally:
                    self._current_group = None
            opt._per_group_step = wrapped
        except Exception:
            self.flags = None

    def resolve_factor(self, A, est):
        """Which (group, block, factor) is the matrix routine being called for?  By identity (SOAP passes the state tensor) or by
        proportionality to a stored factor matrix (Shampoo passes factor / bias_correction).  Ambiguity (equal or all-zero factors of
        the same shape) is resolved by taking the first matching candidate, in list order, that has not been called yet in this step."""
        a = A.detach().to(F64)
        a_zero = not bool(a.any())
        cur = getattr(self, "_current_group", None)
        for gi in ([cur] if cur is not None else range(self.ng)):
            for (b, name), t in sorted(self._tensors[gi].items(), key=lambda kv: (kv[0][0], kv[0][1])):
                if not name.startswith("fac") or (gi, b, int(name[3:])) in self._used:
                    continue
                if self._active is not None and b not in self._active[gi]:
                    continue            # the routine is only ever called for blocks whose parameter has a gradient
                tt = t.to_local() if hasattr(t, "to_local") else t
                if tt.shape != A.shape:
                    continue
                key = (gi, b, int(name[3:]))
                if tt.data_ptr() == A.data_ptr():
                    self._used.add(key)
                    return key
                f = tt.detach().to(F64)
                if a_zero or not bool(f.any()):
                    if a_zero and not bool(f.any()):
                        self._used.add(key)
                        return key
                    continue
                i = int(f.abs().argmax())
                fa, aa = float(f.reshape(-1)[i]), float(a.reshape(-1)[i])
                if fa != 0.0 and aa != 0.0 and math.isfinite(fa) and math.isfinite(aa):
                    if torch.allclose(a * (fa / aa), f, rtol=1e-5, atol=0.0, equal_nan=True):
                        self._used.add(key)
                        return key
        return None

    def concrete_hy(self, gi):
        g = self.draw["groups"][gi]
        h = self.hy[gi]
        return {"lr": g["lr"][h["lr"]], "mom": g["mom"][h["mom"]], "beta1": g["b1"][h["b1"]], "wd": g["wd"][h["wd"]],
                "beta3": effective_beta3(self.draw, gi)}

    def do_sethyper(self, ev):
        gi = ev["g"] - 1
        self.hy[gi][ev["key"]] = ev["v"]
        realopt.set_hyper(self.opt, gi, self.draw["groups"][gi], ev["key"], ev["v"])
        self.trace.append({"ev": "SetHyper", "g": ev["g"], "key": ev["key"], "v": ev["v"]})

    # ---- checkpointing on the live optimizer (ShampooOpt!Save / Load) --------------------------------
    def named_params(self):
        return [(f"g{gi}.p{pi}", p) for gi, ps in enumerate(self.params) for pi, p in enumerate(ps)]

    def durable_snapshot(self):
        return [({k: h for k, h in realopt.snapshot(self.opt, gi).items() if k[1] != "param"}, realopt.group_step_value(self.opt, gi))
                for gi in range(self.ng)]

    def do_save(self):
        import copy
        import io
        sd = self.opt.distributed_state_dict(key_to_param=iter(self.named_params()))
        buf = io.BytesIO()
        torch.save(sd, buf)                      # through the serialiser: nothing may alias the live state
        self._ckpt = {"bytes": buf.getvalue(), "root_at": copy.deepcopy(self.root_at), "hy": copy.deepcopy(self.hy),
                      "refs": [r.save_state() for r in self.refs], "snap": self.durable_snapshot()}
        self.trace.append({"ev": "Save"})
        return []

    def do_load(self):
        """load_distributed_state_dict into the LIVE optimizer (rollback / reload)."""
        import copy
        import io
        ck = self._ckpt
        sd = torch.load(io.BytesIO(ck["bytes"]), weights_only=False)
        mism = []
        try:
            self.opt.load_distributed_state_dict(state_dict=sd, key_to_param=iter(self.named_params()))
        except Exception as ex:  # noqa
            mism.append(("load.raised", "checkpoint of this optimizer loads", f"{type(ex).__name__}: {str(ex)[:120]}"))
        self.root_at = copy.deepcopy(ck["root_at"])
        self.hy = copy.deepcopy(ck["hy"])
        for r, sv in zip(self.refs, ck["refs"]):
            r.load_state(sv)
        if not mism:
            now = self.durable_snapshot()
            for gi, ((a, sa), (b, sb)) in enumerate(zip(ck["snap"], now)):
                diff = sorted(str(k) for k in a if a[k] != b.get(k))
                if diff or sa != sb:
                    mism.append((f"g{gi+1}.load.state_restored", f"every state tensor and the step counter ({sa}) as saved",
                                 f"step {sb}, differs in {diff[:4]}"))
            for gi, g in enumerate(self.draw["groups"]):
                for key in ("lr", "mom", "b1", "wd", "freq"):
                    if not realopt.hyper_equals(self.opt, gi, g, key, self.hy[gi][key]):
                        mism.append((f"g{gi+1}.load.param_group.{key}", "value in force when saved", "different"))
        self.trace.append({"ev": "Load"})
        return mism

    def params_overflowed(self):
        """A PARAMETER overflowed in a 16-bit dtype, or in a dtype narrower than the preconditioner's (a finite root times a finite
        gradient can exceed the largest representable value): from then on gradients
        (coupled weight decay) and factors are non-finite for a reason no property speaks about - drivers end the run there."""
        return (self.draw["dtype"] in ("float16", "bfloat16") or self.draw["dtype"] != self.draw.get("pdtype", self.draw["dtype"])) and any(
            not bool(torch.isfinite(p.detach().float()).all()) for ps in self.params for p in ps)

    def do_event(self, ev):
        """Non-step events of a behaviour.  Returns None if `ev` is a Step (caller handles it), else the mismatch list."""
        if ev["ev"] == "SetHyper":
            self.do_sethyper(ev)
            return []
        if ev["ev"] == "Save":
            return self.do_save()
        if ev["ev"] == "Load":
            return self.do_load()
        return None

    def make_grads(self, present, outc):
        draw = self.draw
        grads = []
        for gi, g in enumerate(draw["groups"]):
            gg = []
            for pi, shp in enumerate(g["shapes"]):
                gg.append(realopt.make_grad(draw, gi, pi, self.t, shp) if present[gi][pi] else None)
            grads.append(gg)
        for gi, g in enumerate(draw["groups"]):
            for b, oc in enumerate(outc[gi], start=1):
                meta = self.meta[gi][b - 1]
                if oc["inf"] and grads[gi][meta["param"]] is not None:
                    gv = grads[gi][meta["param"]].view(meta["merged"])
                    gv[tuple(s for s, _ in meta["slices"])] = float("inf")
                    self.poisoned = True
        return grads

    def do_step(self, present, outc, expected=None):
        """One optimizer.step().  `expected`: the spec's observation records per group (enables the numeric check).
        Returns the list of python-side mismatches (clause, expected, observed)."""
        opt, draw = self.opt, self.draw
        self.t += 1
        mism = []
        grads = self.make_grads(present, outc)
        for gi in range(self.ng):
            for p, gr in zip(self.params[gi], grads[gi]):
                if draw.get("toggle_rg"):
                    p.requires_grad_(gr is not None)
                if gr is not None and p.grad is not None and draw.get("grad_assign") == "data_swap" and p.grad.shape == gr.shape:
                    p.grad.data = gr.clone()          # same .grad object, new storage
                else:
                    p.grad = None if gr is None else gr.clone()
        self._tensors = [realopt.block_state_tensors(opt, gi) for gi in range(self.ng)]
        self._prev_param = [{b: (t_.to_local() if hasattr(t_, "to_local") else t_).detach().to(F64).clone()
                             for (b, name), t_ in self._tensors[gi].items() if name == "param"} for gi in range(self.ng)]
        self._prev_ref = [{b + 1: blk.w.clone() for b, blk in enumerate(self.refs[gi].blocks)} if self.numeric and self.refs else {}
                          for gi in range(self.ng)]
        before = [{k: realopt.tensor_hash(v) for k, v in self._tensors[gi].items()} for gi in range(self.ng)]
        steps_before = [realopt.group_step_value(opt, gi) for gi in range(self.ng)]
        if self.flags is not None:
            self.flags.clear()
        calls = []
        self._used = set()
        self._active = [{b + 1 for b, m in enumerate(self.meta[gi]) if present[gi][m["param"]]} for gi in range(self.ng)]

        def decide(name, A, est):
            who = self.resolve_factor(A, est)
            if who is None:
                calls.append((None, None, None, "ok"))
                return "ok"
            gi, b, k = who
            out = outc[gi][b - 1]["f"][k - 1] if k - 1 < len(outc[gi][b - 1]["f"]) else "ok"
            calls.append([gi, b, k, out])
            if out == "fail":          # the exception class rotates from failure to failure (deterministic per run)
                self._nfail = getattr(self, "_nfail", -1) + 1
                return f"fail:{self._nfail}"
            return out

        def natural(result):
            """the routine itself may produce a value that is non-finite once stored (e.g. overflow in the stored dtype):
            that is the environment's outcome "nan" for this call, whatever was planned"""
            gi, b, k, out = calls[-1]
            if gi is None or out != "ok":
                return
            stored = self._tensors[gi].get((b, f"root{k}"))
            if stored is None:
                return
            st_ = stored.to_local() if hasattr(stored, "to_local") else stored
            if not bool(torch.isfinite(result.detach().to(st_.dtype)).all()):
                calls[-1][3] = "nan"
        exc = None
        with faults.patched_keyed(decide, natural):
            try:
                opt.step()
            except Exception as e:  # noqa
                exc = e
        raised = classify_exception(exc)
        after = [{k: realopt.tensor_hash(v) for k, v in self._tensors[gi].items()} for gi in range(self.ng)]
        entered = sorted(self.flags) if self.flags is not None else None
        raising_group = (max(entered) if entered else 0) if raised != "none" else None
        obs_all = []
        for gi, g in enumerate(draw["groups"]):
            ab = self.abstract[gi]
            sv = realopt.group_step_value(opt, gi)
            reached = raised == "none" or (raising_group is not None and gi <= raising_group)
            active = [b + 1 for b, m in enumerate(self.meta[gi]) if present[gi][m["param"]]]
            if not reached:
                obs_all.append({"has": True, "reached": False})
                if after[gi] != before[gi] or sv != steps_before[gi]:
                    mism.append((f"g{gi+1}.untouched_after_abort", "unchanged", "changed"))
                continue
            # root / basis ages: a successful call of the matrix routine for (block, factor) at this step (the stored value itself may
            # legitimately be bitwise unchanged: 1x1 and diagonal-flagged SOAP bases, roots recomputed from an unchanged factor)
            ok_calls = {(b, k) for (g2, b, k, o) in calls if g2 == gi and o == "ok"}
            for (b, k) in ok_calls:
                if k - 1 < len(self.root_at[gi][b - 1]):
                    self.root_at[gi][b - 1][k - 1] = sv
            for (b, name), h in after[gi].items():
                if not name.startswith("root"):
                    continue
                k = int(name[4:])
                changed_ = before[gi][(b, name)] != h
                if changed_ and (b, k) not in ok_calls:
                    mism.append((f"g{gi+1}.root_changed_without_successful_computation.b{b}.k{k}", "stored matrix kept", "changed"))
                if (b, k) in ok_calls and not changed_ and g["kind"] == "shampoo" and draw.get("grad_mode", "dense") == "dense" \
                        and not draw.get("grad_scales") and not draw.get("zero_steps") and raised == "none":
                    mism.append((f"g{gi+1}.computed_root_not_stored.b{b}.k{k}", "stored matrix updated", "bitwise unchanged"))
            ob = {"has": True, "reached": True, "step": sv, "stepped": sv != steps_before[gi],
                  "raised": raised if gi == raising_group else "none",
                  "calls": [[b, k, o] for (g2, b, k, o) in calls if g2 == gi],
                  "active": active, "rootAt": [list(r) for r in self.root_at[gi]]}
            if self.flags is not None:
                ob["stepped"] = gi in self.flags
                if gi in self.flags:
                    ob["refresh"] = self.flags[gi]["refresh"]
                    ob["usegraft"] = self.flags[gi]["usegraft"]
            ml = realopt.masked_lists(opt, gi)
            if ml is not None:
                ob["lists"] = ml
            obs_all.append(ob)
            # ---- checks over tensors (not expressible over the trace's scalars) ----
            act = set(active)
            for (b, name), h in after[gi].items():
                changed = before[gi][(b, name)] != h
                if b not in act and changed:
                    mism.append((f"g{gi+1}.frame.b{b}.{name}", "bitwise unchanged", "changed"))
                if b in act and ob["raised"] != "none" and name in ("param", "mom", "filt") and changed:
                    mism.append((f"g{gi+1}.changed_on_raise.b{b}.{name}", "unchanged", "changed"))
                if b in act and ob["raised"] == "none" and ob["stepped"] and not changed and not self.poisoned \
                        and draw.get("grad_mode", "dense") == "dense" and not draw.get("grad_scales") and not draw.get("zero_steps") \
                        and draw["dtype"] == "float64" and draw.get("pdtype", "float64") == "float64":
                    # (a gradient far below the accumulated history - or below the resolution of a low-precision buffer - legitimately
                    # leaves a buffer bitwise unchanged)
                    hyc = self.concrete_hy(gi)
                    must = (name.startswith("fac") or name in ("graft", "cev")
                            or (name == "filt" and hyc["beta1"] != 0.0))   # momentum may legitimately stay 0 (zero direction)
                    if must:
                        mism.append((f"g{gi+1}.own_buffer_updated.b{b}.{name}", "changed", "bitwise unchanged"))
                if name.startswith("root") and h != "empty":
                    t = self._tensors[gi][(b, name)]
                    t = t.to_local() if hasattr(t, "to_local") else t
                    if not bool(torch.isfinite(t.detach().to(F64)).all()):
                        mism.append((f"g{gi+1}.stored_root_finite.b{b}.{name}", "finite", "non-finite"))
            if any(c[0] is None for c in calls):
                mism.append((f"g{gi+1}.unidentified_matrix_call", "call for a known factor", "unknown matrix"))
        # the trace carries the outcomes the environment actually produced (planned faults + natural non-finite results)
        outc_obs = [[{"inf": oc["inf"], "f": list(oc["f"])} for oc in go] for go in outc]
        for (g2, b, k, o) in calls:
            if g2 is not None and k - 1 < len(outc_obs[g2][b - 1]["f"]):
                outc_obs[g2][b - 1]["f"][k - 1] = o
        narrow = draw["dtype"] in ("float16", "bfloat16") or draw["dtype"] != draw.get("pdtype", draw["dtype"])
        if raised == "value" and narrow:
            # a factor matrix overflowed while accumulating a FINITE gradient (huge parameters fed back by weight decay, 16-bit / float32
            # statistics): for the specification that is the environment's outcome "this step's statistic of the block is non-finite"
            for gi in range(self.ng):
                for (b, name), t_ in self._tensors[gi].items():
                    if name.startswith("fac"):
                        tt = t_.to_local() if hasattr(t_, "to_local") else t_
                        if not bool(torch.isfinite(tt.detach().float()).all()) and b in self._active[gi]:
                            outc_obs[gi][b - 1]["inf"] = True
        self.trace.append({"ev": "Step", "present": present, "outc": outc_obs, "obs": obs_all})
        # ---- numeric reference, driven by the spec's control decisions ----
        if self.numeric and expected is not None and not self.poisoned:
            for gi, g in enumerate(draw["groups"]):
                exp = expected[gi]
                if not exp.get("reached"):
                    continue
                bases = None
                if g["kind"] == "soap":
                    bases = {(c[0], c[1]): self._tensors[gi][(c[0], f"root{c[1]}")].detach().clone()
                             for c in exp["calls"] if c[2] == "ok" and (c[0], f"root{c[1]}") in self._tensors[gi]}
                    mism += self.check_bases(gi, g, exp)
                self.refs[gi].step(exp, grads[gi], self.concrete_hy(gi), bases)
                mism += self.compare_numeric(gi)
        return mism

    def check_bases(self, gi, g, exp):
        """C03: every basis written at this refresh is orthonormal; (eigh) diagonalises the factor it was computed from,
        columns by ascending Rayleigh quotient; (QR) is the orthogonal-iteration update of the previous basis."""
        out = []
        tens = self._tensors[gi]
        for (b, k1, outc) in exp["calls"]:
            if outc != "ok" or (b, f"root{k1}") not in tens:
                continue
            q = tens[(b, f"root{k1}")].detach().to(F64)
            a = tens[(b, f"fac{k1}")].detach().to(F64)
            n = q.shape[0]
            eye = torch.eye(n, dtype=F64)
            oerr = float((q.T @ q - eye).abs().max())
            if oerr > 1e-8 * max(1, n):
                out.append((f"g{gi+1}.basis_orthonormal.b{b}.k{k1}", "Q^T Q = I", oerr))
                continue
            scale = float(a.abs().max()) + 1e-300
            ray = torch.einsum("ij,ik,kj->j", q, a, q)
            if g.get("method", "eigh") == "eigh":
                d = q.T @ a @ q
                off = float((d - torch.diag(torch.diag(d))).abs().max())
                if off > 1e-8 * n * scale:
                    out.append((f"g{gi+1}.basis_diagonalises.b{b}.k{k1}", "offdiag(Q^T A Q) ~ 0", off))
            else:
                prev = self.refs[gi].blocks[b - 1].root[self.refs[gi].blocks[b - 1].pdims[k1 - 1]]
                if bool(prev.any()):
                    # the documented algorithm, in float64, from the basis that was stored before this refresh: Q <- qr(A Q) until the
                    # relative change is within the tolerance or the iteration budget is used, then ordered by Rayleigh quotient
                    iters, tol = int(g.get("qr_iters", 1)), float(g.get("qr_tol", 1e-5))
                    qq, it, err = prev.clone(), 0, float("inf")
                    while it < iters and err > tol:
                        last = qq
                        qq = torch.linalg.qr(a @ qq).Q
                        it += 1
                        err = float((last - qq).norm() / last.norm())
                    # (the same float64 operations on the same inputs - the factor tensor and the stored previous basis - as the code
                    # performs: no conditioning argument is needed, differences beyond rounding mean a different algorithm)
                    stable = True
                    if stable:
                        # same column spaces up to sign and ordering: |Q_ref^T Q| is a permutation matrix (a tolerance-controlled stop may
                        # fall one iteration earlier or later when the change is within rounding of the tolerance)
                        m = (qq.T @ q).abs()
                        lim = max(1e-6, 50 * tol)
                        if float((m.max(dim=0).values - 1).abs().max()) > lim or float((m.sum(dim=0) - 1).abs().max()) > 10 * lim * n:
                            out.append((f"g{gi+1}.basis_qr_update.b{b}.k{k1}",
                                        f"columns of the {it}-iteration orthogonal-iteration update of the previous basis, up to sign/order",
                                        [round(float(x), 6) for x in m.max(dim=0).values][:8]))
            # ordering is only promised by the eigendecomposition routine itself (C12); a factor that has been diagonal so far
            # legitimately gets the identity basis, whatever the order of its diagonal
            if n > 1 and not torch.equal(q, eye) and bool((ray[1:] < ray[:-1] - 1e-8 * scale).any()):
                out.append((f"g{gi+1}.basis_order.b{b}.k{k1}", "ascending Rayleigh quotients", ray.tolist()))
        return out

    def compare_numeric(self, gi, rtol=1e-7):
        out = []
        tens = self._tensors[gi]
        ref = self.refs[gi]
        g = self.draw["groups"][gi]
        for (b, name), t in tens.items():
            blk = ref.blocks[b - 1]
            if name == "param":
                want = blk.w
            elif name.startswith("fac"):
                want = blk.fac[blk.pdims[int(name[3:]) - 1]]
            elif name.startswith("root"):
                want = blk.root[blk.pdims[int(name[4:]) - 1]]
            else:
                want = {"cev": blk.cev, "filt": blk.filt, "mom": blk.mom, "graft": blk.gacc}.get(name)
            if want is None:
                continue
            got = (t.to_local() if hasattr(t, "to_local") else t).detach().to(F64)
            if got.shape != want.shape:
                out.append((f"g{gi+1}.shape.b{b}.{name}", list(want.shape), list(got.shape)))
                continue
            if got.numel() == 0:
                continue
            scale = float(want.abs().max())
            err = float((got - want).abs().max())
            tol = rtol * max(scale, 1e-30)
            if g["kind"] == "shampoo" and (name.startswith("root") or name in ("param", "mom")):
                # conditioning of the inverse root (rank-deficient factors with a small epsilon and a large exponent put 1e-8-level
                # noise of the eigendecomposition into the direction); the factor itself is compared tightly.  The noise grows with the
                # condition number of the stored root itself ((lambda_max + eps) / (lambda_min + eps)) ^ exponent: 4e13 for a rank-1
                # factor of gradients x 1e3 with eps 0.1 and exponent 1.82), so the tolerance does too
                cr = 1.0
                for rk in blk.root.values():
                    if rk.numel() > 1 and bool(torch.isfinite(rk).all()) and bool(rk.any()):
                        ev = torch.linalg.eigvalsh((rk + rk.T) / 2).abs()
                        cr = max(cr, float(ev.max() / max(float(ev.min()), 1e-300)))
                tol = max(1e-6, min(1.0, 1e-14 * cr)) * max(scale, 1e-30)
            if g.get("method") in ("newton", "higher"):
                # iterative solvers stop at their own tolerance (1e-6 / 1e-8 residual); with coupled weight decay the parameter feeds
                # back into the gradient, hence into every accumulator
                tol = 1e-4 * max(scale, 1e-30)
            if not (err <= tol) or not math.isfinite(err):
                out.append((f"g{gi+1}.value.b{b}.{name}", f"max|.|={scale:.6g}", f"abs err {err:.3e} > {tol:.3e}"))
            elif (name == "param" and self.draw["dtype"] == "float64" and self.draw.get("pdtype", "float64") == "float64"
                  and b in self._prev_param[gi] and b in self._prev_ref[gi]):
                # the UPDATE itself, relative to its own size: a step that is tiny next to the parameter (small gradient after a long
                # history, small lr) is invisible in the comparison above
                d_got, d_want = got - self._prev_param[gi][b], want - self._prev_ref[gi][b]
                dscale = float(d_want.abs().max())
                derr = float((d_got - d_want).abs().max())
                dtol = (1e-2 if g.get("method") in ("newton", "higher") else 1e-4) * dscale + 1e-14 * max(scale, 1e-300)
                if not (derr <= dtol):
                    out.append((f"g{gi+1}.value.b{b}.param_update", f"max|update|={dscale:.6g}", f"abs err {derr:.3e} > {dtol:.3e}"))
        return out


def run_behaviour(draw, beh, pt2=None, numeric=True, stop_at_first=True, runner=None):
    """Step the behaviour's inputs through the real optimizer.  Returns (python-side mismatches, observed trace)."""
    try:
        r = runner or Runner(draw, pt2=pt2, numeric=numeric)
    except Exception as ex:  # noqa - the configuration is valid (the behaviour was generated for it): the constructor must accept it
        import traceback
        tb = traceback.extract_tb(ex.__traceback__)
        if any("/harness/" in f.filename and f.name not in ("build", "__init__") for f in tb[-1:]):
            raise              # the exception comes from the harness itself
        return [(0, "structure.construction_raised", "the optimizer constructs for this configuration",
                 f"{type(ex).__name__}: {str(ex)[:160]}")], None
    out = []
    # the behaviour was generated for the block structure this configuration has (shapes, max_preconditioner_dim, merging): the
    # optimizer that was just built must have exactly those blocks, whatever else the draw says (requires_grad flags, dtypes, ...)
    first = next((ev for ev in beh if ev["ev"] == "Step"), None)
    if first is not None:
        want = [len(go) for go in first["outc"]]
        got = [len(m) for m in r.meta]
        if want != got:
            return [(0, "structure.blocks_per_group", want, got)], {"cfg": r.abstract, "events": []}
    for i, ev in enumerate(beh):
        em = r.do_event(ev)
        if em is not None:
            out += [(i + 1,) + tuple(m) for m in em]
            if em and stop_at_first:
                break
            continue
        mm = r.do_step(ev["present"], ev["outc"], expected=ev.get("obs"))
        if mm:
            out += [(i + 1,) + tuple(m) for m in mm]
            if stop_at_first:
                break
        if r.params_overflowed():
            break
    return out, {"cfg": r.abstract, "events": r.trace}


def replay_task(args):
    """Pool worker: (draw, behaviour, options) -> (py mismatches, observed trace)."""
    import logging
    logging.disable(logging.WARNING)
    torch.set_num_threads(1)
    draw, beh, opts = args
    try:
        mm, tr = run_behaviour(draw, beh, **opts)
        return mm, tr, None
    except Exception as ex:  # machinery failure inside a worker: report, do not mask
        import traceback
        return [], None, traceback.format_exc()
