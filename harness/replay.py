"""Engine R: step a TLC-generated behaviour of ShampooOpt through the real optimizer, comparing after every action
(a) the structural observation record with the spec's, (b) bitwise frame conditions, (c) every state tensor with the
float64 reference driven by the spec's control decisions."""
from __future__ import annotations

import math

import torch

from harness import faults, realopt, refopt

F64 = torch.float64
EXC = {"none": None, "tol": "ValueError", "value": "PreconditionerValueError"}


def classify_exception(ex):
    if ex is None:
        return "none"
    from distributed_shampoo.shampoo_types import PreconditionerValueError
    if isinstance(ex, PreconditionerValueError):
        return "value"
    if type(ex) is ValueError and "exceeded the allowed tolerance" in str(ex):
        return "tol"
    return "other:" + type(ex).__name__


def effective_beta3(draw, gi):
    g = draw["groups"][gi]
    if g.get("beta3", -1.0) != -1.0:
        return g["beta3"]
    g0 = draw["groups"][0]
    if g0.get("beta3", -1.0) != -1.0 and gi > 0:
        return g0["beta3"]
    src = draw["groups"][0] if gi > 0 else g
    return src["b1"][src.get("b10", 1)]


class Runner:
    """Holds the real optimizer, the reference, and the current hyper indices."""

    def __init__(self, draw, pt2=None, numeric=True, opt=None, params=None):
        self.draw = draw
        if opt is None:
            opt, params = realopt.build(draw, pt2=pt2)
        self.opt, self.params = opt, params
        self.numeric = numeric and draw["dtype"] == "float64" and draw["pdtype"] == "float64"
        self.hy = [{"lr": g.get("lr0", 1), "mom": g.get("mom0", 1), "b1": g.get("b10", 1), "wd": g.get("wd0", 0)} for g in draw["groups"]]
        self.abstract = [realopt.abstract_group(opt, gi, g) for gi, g in enumerate(draw["groups"])]
        self.refs = []
        if self.numeric:
            for gi, g in enumerate(draw["groups"]):
                hp = dict(g)
                hp.update(hasFilt=self.abstract[gi]["hasFilt"], hasMom=self.abstract[gi]["hasMom"])
                self.refs.append(refopt.GroupRef(hp, self.params[gi], realopt.ref_blocks(opt, gi, g)))
        self.script = faults.Script()
        self.t = 0
        self.flags = {}
        self._wrap_group_step()

    def _wrap_group_step(self):
        opt = self.opt
        try:
            inner = opt._per_group_step
            names = ["state_lists", "step", "lr", "beta1", "beta3", "weight_decay", "momentum_param", "dampening",
                     "grafting_config_not_none", "perform_amortized_computation", "use_decoupled_weight_decay",
                     "use_bias_correction", "use_grafting_method", "use_nesterov"]

            def wrapped(*a, **kw):
                rec = dict(zip(names, a))
                rec.update(kw)
                gi = next(i for i, sl in enumerate(opt._per_group_state_lists) if sl is rec["state_lists"])
                self.flags[gi] = {"refresh": bool(rec["perform_amortized_computation"]), "usegraft": bool(rec["use_grafting_method"])}
                return inner(*a, **kw)
            opt._per_group_step = wrapped
        except Exception:
            self.flags = None

    def concrete_hy(self, gi):
        g = self.draw["groups"][gi]
        h = self.hy[gi]
        return {"lr": g["lr"][h["lr"]], "mom": g["mom"][h["mom"]], "beta1": g["b1"][h["b1"]], "wd": g["wd"][h["wd"]],
                "beta3": effective_beta3(self.draw, gi)}

    def do_sethyper(self, ev):
        gi = ev["g"] - 1
        self.hy[gi][ev["key"]] = ev["v"]
        realopt.set_hyper(self.opt, gi, self.draw["groups"][gi], ev["key"], ev["v"])

    def do_step(self, ev, check=True):
        """Returns a list of mismatches (clause, expected, observed)."""
        opt, draw = self.opt, self.draw
        self.t += 1
        mism = []
        grads = []
        outcomes = []
        for gi, g in enumerate(draw["groups"]):
            gg = []
            for pi, shp in enumerate(g["shapes"]):
                p = self.params[gi][pi]
                if ev["present"][gi][pi]:
                    gr = realopt.make_grad(draw, gi, pi, self.t, shp)
                    gg.append(gr)
                else:
                    gg.append(None)
            grads.append(gg)
        # gradient infinities requested by the spec (outc[b].inf): poison one element of that block's region
        for gi, g in enumerate(draw["groups"]):
            ob = ev["obs"][gi]
            for b, oc in enumerate(ev["outc"][gi], start=1):
                if oc["inf"]:
                    meta = realopt.ref_blocks(opt, gi, g)[b - 1]
                    gv = grads[gi][meta["param"]].view(meta["merged"])
                    gv[tuple(s for s, _ in meta["slices"])] = float("inf")
            if ob.get("reached"):
                outcomes += [c[2] for c in ob["calls"]]
        for gi in range(len(draw["groups"])):
            for p, gr in zip(self.params[gi], grads[gi]):
                p.grad = None if gr is None else gr.clone()
        before = [realopt.snapshot(opt, gi) for gi in range(len(draw["groups"]))]
        steps_before = [realopt.group_step_value(opt, gi) for gi in range(len(draw["groups"]))]
        if self.flags is not None:
            self.flags.clear()
        self.script.arm(outcomes)
        exc = None
        with faults.patched(self.script):
            try:
                opt.step()
            except Exception as e:  # noqa
                exc = e
        observed_raise = classify_exception(exc)
        after = [realopt.snapshot(opt, gi) for gi in range(len(draw["groups"]))]
        exp_raise = "none"
        for ob in ev["obs"]:
            if ob.get("reached") and ob["raised"] != "none":
                exp_raise = ob["raised"]
        if observed_raise != exp_raise:
            mism.append(("raised", exp_raise, observed_raise + (f" ({exc})" if exc is not None and observed_raise.startswith('other') else "")))
        n_calls = sum(1 for x in self.script.log)
        if n_calls != len(outcomes):
            mism.append(("matrix_routine_calls", len(outcomes), n_calls))
        for gi, g in enumerate(draw["groups"]):
            ob = ev["obs"][gi]
            ab = self.abstract[gi]
            sv = realopt.group_step_value(opt, gi)
            if not ob.get("reached"):
                if after[gi] != before[gi] or sv != steps_before[gi]:
                    mism.append((f"g{gi+1}.untouched_after_abort", "unchanged", "changed"))
                continue
            if sv != ob["step"]:
                mism.append((f"g{gi+1}.step", ob["step"], sv))
            if self.flags is not None and ob["stepped"] and gi in self.flags:
                for k in ("refresh", "usegraft"):
                    if self.flags[gi][k] != ob[k]:
                        mism.append((f"g{gi+1}.flag.{k}", ob[k], self.flags[gi][k]))
            if self.flags is not None and ob["stepped"] != (gi in self.flags):
                mism.append((f"g{gi+1}.stepped", ob["stepped"], gi in self.flags))
            ml = realopt.masked_lists(opt, gi)
            if ml is not None:
                for name, lst in ml.items():
                    exp = ob["lists"][name]
                    if name == "mF" and not ab["hasFilt"] or name == "mM" and not ab["hasMom"]:
                        continue
                    if list(lst) != list(exp):
                        mism.append((f"g{gi+1}.masked_list.{name}", list(exp), list(lst)))
            # bitwise frame: blocks whose parameter has no gradient keep every tensor; changed-bits for the others
            active = set(ob["active"])
            prev_obs = self.prev_obs[gi] if hasattr(self, "prev_obs") and self.prev_obs[gi] else None
            for (b, name), h in after[gi].items():
                changed = before[gi][(b, name)] != h
                if b not in active and changed:
                    mism.append((f"g{gi+1}.frame.b{b}.{name}", "bitwise unchanged", "changed"))
                if b in active and name.startswith("root"):
                    k = int(name[4:])
                    was = prev_obs["rootAt"][b - 1][k - 1] if prev_obs else 0
                    exp_changed = ob["rootAt"][b - 1][k - 1] != was
                    if changed != exp_changed:
                        mism.append((f"g{gi+1}.root_refreshed.b{b}.k{k}", exp_changed, changed))
                if b in active and name == "param" and ob["raised"] != "none" and changed:
                    mism.append((f"g{gi+1}.param_changed_on_raise.b{b}", "unchanged", "changed"))
                if name.startswith("root") and h != "empty":
                    t = realopt.block_state_tensors(opt, gi)[(b, name)]
                    if not bool(torch.isfinite(t.to(torch.float64) if not hasattr(t, "to_local") else t.to_local().to(torch.float64)).all()):
                        mism.append((f"g{gi+1}.stored_root_finite.b{b}.{name}", "finite", "non-finite"))
        if not hasattr(self, "prev_obs"):
            self.prev_obs = [None] * len(draw["groups"])
        for gi, ob in enumerate(ev["obs"]):
            if ob.get("reached"):
                self.prev_obs[gi] = ob
        # numeric reference (skipped once non-finite values were injected)
        if self.numeric and not getattr(self, "poisoned", False):
            if any(oc["inf"] for gi in range(len(draw["groups"])) for oc in ev["outc"][gi]):
                self.poisoned = True
            else:
                for gi, g in enumerate(draw["groups"]):
                    ob = ev["obs"][gi]
                    if not ob.get("reached"):
                        continue
                    bases = None
                    if g["kind"] == "soap":
                        tens = realopt.block_state_tensors(opt, gi)
                        bases = {(c[0], c[1]): tens[(c[0], f"root{c[1]}")].detach().clone() for c in ob["calls"] if c[2] == "ok"}
                        mism += self.check_bases(gi, g, ob, tens)
                    self.refs[gi].step(ob, grads[gi], self.concrete_hy(gi), bases)
                    mism += self.compare_numeric(gi)
        return mism

    def check_bases(self, gi, g, ob, tens):
        """C03: every basis written at this refresh is orthonormal and (eigh) diagonalises the factor it was computed
        from / (QR) spans the orthogonal-iteration update of the previous basis, columns by ascending Rayleigh quotient."""
        out = []
        ref = self.refs[gi]
        for (b, k1, outc) in ob["calls"]:
            if outc != "ok":
                continue
            q = tens[(b, f"root{k1}")].detach().to(F64)
            blk = ref.blocks[b - 1]
            k = blk.pdims[k1 - 1]
            n = q.shape[0]
            # the factor the basis was computed from: reference factor AFTER this step's accumulation (computed below by
            # ref.step; here we recompute it from the real stored factor, which compare_numeric ties to the reference)
            a = tens[(b, f"fac{k1}")].detach().to(F64)
            tol = 1e-8 * max(1, n)
            if float((q.T @ q - torch.eye(n, dtype=F64)).abs().max()) > tol:
                out.append((f"g{gi+1}.basis_orthonormal.b{b}.k{k1}", "Q^T Q = I", float((q.T @ q - torch.eye(n, dtype=F64)).abs().max())))
            ray = torch.einsum("ij,ik,kj->j", q, a, q)
            scale = float(a.abs().max()) + 1e-300
            if g.get("method", "eigh") == "eigh":
                d = q.T @ a @ q
                off = d - torch.diag(torch.diag(d))
                if float(off.abs().max()) > 1e-8 * n * scale:
                    out.append((f"g{gi+1}.basis_diagonalises.b{b}.k{k1}", "offdiag(Q^T A Q) ~ 0", float(off.abs().max())))
            if n > 1 and bool((ray[1:] < ray[:-1] - 1e-8 * scale).any()):
                out.append((f"g{gi+1}.basis_order.b{b}.k{k1}", "ascending Rayleigh quotients", ray.tolist()))
        return out

    def compare_numeric(self, gi, rtol=1e-8):
        out = []
        tens = realopt.block_state_tensors(self.opt, gi)
        ref = self.refs[gi]
        g = self.draw["groups"][gi]
        for (b, name), t in tens.items():
            blk = ref.blocks[b - 1]
            if name == "param":
                want = blk.w
            elif name.startswith("fac"):
                want = blk.fac[blk.pdims[int(name[3:]) - 1]]
            elif name.startswith("root"):
                want = blk.root[blk.pdims[int(name[4:]) - 1]]
            elif name == "cev":
                want = blk.cev
            elif name == "filt":
                want = blk.filt
            elif name == "mom":
                want = blk.mom
            elif name == "graft":
                want = blk.gacc
            else:
                continue
            if want is None:
                continue
            got = t.detach().to(F64)
            if got.shape != want.shape:
                out.append((f"g{gi+1}.shape.b{b}.{name}", list(want.shape), list(got.shape)))
                continue
            if got.numel() == 0:
                continue
            scale = float(want.abs().max())
            err = float((got - want).abs().max())
            tol = rtol * max(scale, 1e-30)
            if name.startswith("root") and g["kind"] == "shampoo":
                tol = 1e-6 * max(scale, 1e-30)  # conditioning of the inverse root; the factor itself is compared tightly
            if not (err <= tol) or not math.isfinite(err):
                out.append((f"g{gi+1}.value.b{b}.{name}", f"max|.|={scale:.6g}", f"abs err {err:.3e} > {tol:.3e}"))
        return out


def run_behaviour(draw, beh, pt2=None, numeric=True, stop_at_first=True):
    """Returns (mismatches: list of (action index, clause, expected, observed), runner)."""
    r = Runner(draw, pt2=pt2, numeric=numeric)
    out = []
    for i, ev in enumerate(beh):
        if ev["ev"] == "SetHyper":
            r.do_sethyper(ev)
            continue
        mm = r.do_step(ev)
        if mm:
            out += [(i,) + m for m in mm]
            if stop_at_first:
                break
    return out, r
