"""C14 — block-to-rank assignment (LPT) and gather-buffer layout, three copies.

MC : AssignMC (Partition, LPT rule, 4/3*OPT by brute force, spread, views disjoint/aligned/in-segment)
O  : Assign.Expected evaluated by TLC vs. _distribute_buffer_sizes / _construct_distributed_buffers of
     DDPDistributor, HSDPDistributor, HybridShardDistributor (called on a stub self)
"""
from __future__ import annotations

import itertools
import random
from concurrent.futures import ThreadPoolExecutor

from harness import adapter, tlc

ORACLE = r"""
---- MODULE AssignOracle ----
EXTENDS Assign, Json, IOUtils
Cases == JsonDeserialize(IOEnv.CASES)
Sz(c) == IF c.n = 0 THEN <<>> ELSE c.sizes
ASSUME JsonSerialize(IOEnv.OUT, [i \in 1..Len(Cases) |-> Expected(Sz(Cases[i]), Cases[i].G)])
====
"""
MC_CFG = """SPECIFICATION Spec
CONSTANTS SizeSet = {{1, 64, 65, 128, 192, 500}}
 MaxLen = {n}
 MaxG = {g}
INVARIANT InvPartition
INVARIANT InvLPTRule
INVARIANT InvFourThirds
INVARIANT InvSpread
INVARIANT InvViews
CHECK_DEADLOCK FALSE
"""
COPIES = ("ddp", "hsdp", "hybrid")


def oracle_eval(cases, chunk=1500):
    chunks = [cases[i:i + chunk] for i in range(0, len(cases), chunk)]
    with ThreadPoolExecutor(max_workers=12) as ex:
        outs = list(ex.map(lambda c: tlc.oracle("AssignOracle", ORACLE, c, tag="as-o")[0], chunks))
    return [e for o in outs for e in o]


def compare_case(ctx, case, exp):
    numels, itemsize, G = case["numels"], case["itemsize"], case["G"]
    exp_lpt = [list(x) for x in (exp["lpt"] or [])]
    exp_layout = exp["layout"] or []
    ok = True
    unit = case.get("unit", 1)          # huge loads: TLC evaluated the assignment on sizes / unit (see mk_huge)
    exp_lpt = [[a * unit, r] for a, r in exp_lpt]
    for which in COPIES:
        for rank in case.get("ranks", [0]):
            try:
                real = adapter.real_assignment(which, numels, itemsize, G, rank, lpt_only=unit != 1)
            except Exception as ex:  # noqa - the code under test failed on a valid input
                ok = False
                ctx.violation(f"{which}: assignment / buffer construction raised {type(ex).__name__}: {str(ex)[:120]} on "
                              f"{ {k: (v if k != 'numels' or len(v) < 12 else str(v[:12]) + '...') for k, v in case.items()} }",
                              {"kind": "assign_oracle", "copy": which, "clause": "raised"}, {"case": case})
                continue
            if real["lpt"] != exp_lpt:
                ok = False
                ctx.violation(f"{which}: assignment differs from spec on {case}: expected {exp_lpt}, observed {real['lpt']}",
                              {"kind": "assign_oracle", "copy": which, "clause": "lpt"}, {"case": case})
                continue
            if not numels or unit != 1:
                continue
            probs = []
            if real["total"] != exp["seg"] * G:
                probs.append(("total_buffer", exp["seg"] * G, real["total"]))
            if real["local_seg"] != [rank * exp["seg"], exp["seg"]]:
                probs.append(("local_segment", [rank * exp["seg"], exp["seg"]], real["local_seg"]))
            for i, (v, l) in enumerate(zip(real["views"], exp_layout)):
                if v["off"] != l["off"] or v["bytes"] != l["bytes"]:
                    probs.append((f"view[{i}]", [l["off"], l["bytes"]], [v["off"], v["bytes"]]))
                if not (v["dtype_ok"] and v["same_storage"] and v["shape_ok"]):
                    probs.append((f"view[{i}].flags", True, v))
            n_local = sum(1 for l in exp_layout if l["owner"] == rank)
            if real["local_views"] != n_local:
                probs.append(("local_view_count", n_local, real["local_views"]))
            for clause, e, o in probs[:3]:
                ok = False
                ctx.violation(f"{which}: buffer layout differs from spec on {case} (rank {rank}): {clause}: expected {e}, observed {o}",
                              {"kind": "assign_oracle", "copy": which, "clause": "layout"}, {"case": case})
    return ok


def mk_case(numels, itemsize, G, ranks=None):
    return {"numels": list(numels), "itemsize": itemsize, "G": G, "n": len(numels),
            "sizes": [n * itemsize for n in numels], "ranks": ranks or [0]}


UNIT = 1 << 20


def mk_huge(rng):
    """Loads of several GiB per rank (TLC integers are 32-bit): every size is a multiple of 64 * 2^20 bytes, TLC evaluates the
    assignment on sizes / 2^20 - the rule only compares sums of sizes, so the assignment is the same - and the harness scales back."""
    k = rng.randint(8, 48)
    mult = [rng.choice([1, 1, 2, 3, 4, 4, 8]) for _ in range(k)]            # x 64 MiB
    numels = [m * 16 * UNIT for m in mult]                                      # fp32: bytes = m * 64 * 2^20
    G = rng.choice([2, 2, 3, 4, 8])
    return {"numels": numels, "itemsize": 4, "G": G, "n": k, "sizes": [m * 64 for m in mult], "ranks": [0], "unit": UNIT}


def run(ctx):
    quick = ctx.tier == "quick"
    n, g = (4, 4) if quick else (6, 3)
    res = tlc.run("AssignMC", (tlc.SPEC_DIR / "AssignMC.tla").read_text(), MC_CFG.format(n=n, g=g), tag="C14-mc", timeout=3000)
    ctx.add_tlc(res, f"AssignMC len<={n} G<={g}")
    if not res.ok:
        raise tlc.TLCMachineryError(f"Assign spec fails its declarative properties: {res.violated}\n{res.stdout[-2000:]}")
    if not quick:
        res = tlc.run("AssignMC", (tlc.SPEC_DIR / "AssignMC.tla").read_text(), MC_CFG.format(n=5, g=4), tag="C14-mc2", timeout=3000)
        ctx.add_tlc(res, "AssignMC len<=5 G<=4")
        if not res.ok:
            raise tlc.TLCMachineryError(f"Assign spec fails its declarative properties: {res.violated}")
    # oracle cases: numels such that bytes hit {aligned, just over, ties}; itemsize 2 (bf16/fp16) and 4 (fp32)
    numel_set = [1, 16, 17, 32, 48, 125]
    cases = []
    L = 3 if quick else 4
    for k in range(0, L + 1):
        for numels in itertools.product(numel_set, repeat=k):
            for G in (1, 2, 3, 4):
                cases.append(mk_case(numels, 4, G, ranks=[0, G - 1]))
    n_exh = len(cases)
    rng = random.Random(ctx.seed)
    for _ in range(300 if quick else 5000):
        k = rng.randint(1, 12)
        numels = [rng.choice([1, 2, 15, 16, 17, 31, 32, 33, 64, 100, 128, 129, 1000, 4096]) for _ in range(k)]
        G = rng.randint(1, 16)
        cases.append(mk_case(numels, rng.choice([2, 4]), G, ranks=[rng.randrange(G)]))
    # many blocks per rank (hundreds of views inside one segment) and loads beyond 2^31 bytes per rank
    for _ in range(3 if quick else 20):
        k = rng.randint(257, 700)
        G = rng.choice([1, 1, 2])
        cases.append(mk_case([rng.choice([1, 16, 16, 17, 32]) for _ in range(k)], rng.choice([2, 4]), G, ranks=[rng.randrange(G)]))
    for _ in range(40 if quick else 600):
        cases.append(mk_huge(rng))
    exp = oracle_eval(cases)
    nontrivial = 0
    for c, e in zip(cases, exp):
        compare_case(ctx, c, e)
        ctx.add("evaluations")
        if c["G"] > 1 and len(c["numels"]) > 1:
            nontrivial += 1
    ctx.put("distinct_nontrivial", nontrivial)
    ctx.put("traces_validated_against_impl", len(cases) * len(COPIES))
    ctx.put("exhaustive", True)
    ctx.put("rule", f"MC: every size sequence of length<={n} over {{1,64,65,128,192,500}} bytes x group size 1..{g}; oracle: every "
                    f"numel sequence of length<={L} over {numel_set} (fp32) x G in 1..4 ({n_exh} cases) + seeded random (length<=12, G<=16, "
                    f"2- and 4-byte communication dtypes; 257-700 blocks on one or two ranks; loads of several GiB per rank as plain integers), each on all three copies, comparing (aligned size, rank) per block and "
                    f"(byte offset, bytes, dtype, shape, storage) per buffer view; non-trivial = G>1 and more than one block")
    ctx.sample({"case": cases[n_exh - 1], "expected": exp[n_exh - 1]})
    ctx.sample({"case": cases[-1], "expected_lpt": exp[-1]["lpt"]})
    ctx.assume("the three copies are exercised through a stub `self` carrying only the attributes the methods read")
    ctx.assume("loads >= 2^31 bytes: TLC evaluates the assignment on sizes divided by 2^20 (all sizes multiples of 64*2^20; the rule compares sums only)")
    ctx.assume("optimizer-state placement (state only on the owner) is checked in the simulated-rank runs of C06")


def replay(ctx, data):
    case = data["replay"]["case"]
    compare_case(ctx, case, oracle_eval([case])[0])
    ctx.add("evaluations")
