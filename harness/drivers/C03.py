"""C03 — eigenvalue-corrected Shampoo (SOAP) is Adam run in a valid factor eigenbasis."""
from __future__ import annotations

import copy
import random
import re

from harness import family
from harness.drivers import shampoo_props as sp
from harness.drivers.C01 import plumbing_task

OWN = re.compile(r"basis_|\.value\.|\.shape\.|trace\.(rootAt|calls|refresh|raised)$|spec\.(BasisUse|RefreshTiming|RefreshComplete)|own_buffer_updated|root_changed_without|computed_root_not_stored|dtype_plumbing")


def owns(clause, p=None):
    return bool(OWN.search(clause))


def G(pOf, nf, **kw):
    d = dict(np=max(pOf), pOf=pOf, nf=nf, freq=2, start=2, tol=1, graft=False, kind="soap", hasFilt=True, hasMom=False, wd0=0)
    d.update(kw)
    return d


def make_groups(rng):
    t = rng.choice(["m2x3", "v2x3", "m2x2", "t3", "rect", "ign0", "ignall", "t4", "fuse", "s0v", "sq"])
    gs = [family.draw_group(rng, t, kind="soap", method=rng.choice(["eigh", "qr", "qr"]))]
    if rng.random() < 0.3:
        gs.append(family.draw_group(rng, rng.choice(["m2x2", "rect", "t3"]), kind="soap", method=rng.choice(["eigh", "qr"])))
    return gs


def run(ctx):
    quick = ctx.tier == "quick"
    rng = random.Random(ctx.seed * 7919 + 3)
    mc = [("SOAP 2 blocks x 2 factors, partial failures, freq 1, 4 calls", [G([1, 2], [2, 2], freq=1, start=1)], 4, ("fail",), ()),
          ("SOAP blocked param + param, freq 2 start 3, grafting, 5 calls", [G([1, 1, 2], [2, 2, 1], start=3, graft=True)], 5, ("fail",), ())]
    if not quick:
        mc += [("SOAP 3 factors, freq 1, 4 calls", [G([1], [3], freq=1, start=1)], 4, ("fail", "nan"), ()),
               ("SOAP 2 params, freq 2 start 2, 6 calls", [G([1, 2], [2, 1])], 6, ("fail",), ())]
    wit = [("first factor decides the basis", [G([1, 2], [2, 2], freq=1, start=1)], 3, ("fail",), (), ("FirstFactorDecidesBasis",))]
    sp.run_mc(ctx, mc, wit)
    tasks = sp.gen_tasks(ctx, rng, 12 if quick else 80, 12 if quick else 40, make_groups, 8, ("fail",), ("mom", "b1", "wd"))
    # tolerance-controlled orthogonal iteration on factors far from unit scale (the stopping rule is relative to the basis, not to the factor)
    qt = sp.gen_tasks(ctx, rng, 4 if quick else 20, 6 if quick else 15,
                      lambda r: [family.draw_group(r, r.choice(["m2x3", "rect", "t3", "m2x2", "big"]), kind="soap", method="qr", freq=r.choice([1, 2]))],
                      8, (), ("lr",))
    for d, _, _ in qt:
        for g in d["groups"]:
            g["qr_iters"], g["qr_tol"] = rng.choice([25, 50]), rng.choice([1e-3, 1e-2, 1e-4])
        d["grad_scales"] = rng.choice([[1e3], [1e-5], [1e2], [1.0]])
    tasks += qt
    sp.run_rt(ctx, tasks, owns, "soap")
    # dtype pairings: the stored basis has the parameter's precision, the factor the preconditioner's
    pair = []
    for d, b, _ in rng.sample(tasks, min(len(tasks), 24 if quick else 240)):
        for dt, pdt, meth in (("float32", "float32", None), ("bfloat16", "float32", "qr"), ("float32", "float64", "qr"),
                              ("bfloat16", "float32", "eigh")):
            dd = copy.deepcopy(d)
            dd["dtype"], dd["pdtype"] = dt, pdt
            if meth:
                for g in dd["groups"]:
                    g["method"] = meth
            pair.append((dd, b))
    res = sp.pool_map(plumbing_task, pair)
    from harness import behaviours
    traces = [tr for (_, tr, err) in res]
    idx = [i for i, tr in enumerate(traces) if tr is not None]
    vals = behaviours.validate([traces[i] for i in idx]) if idx else []
    validated = [None] * len(pair)
    for i, v in zip(idx, vals):
        validated[i] = v
    sp.collect(ctx, [(d, b, None) for d, b in pair], res, validated, owns, "dtype_plumbing")
    ctx.add("traces_validated_against_impl", len(idx))
    ctx.add("dtype_pairing_runs", len(pair))
    methods = {}
    for d, _, _ in tasks:
        for g in d["groups"]:
            methods[g["method"]] = methods.get(g["method"], 0) + 1
    ctx.put("eigenvector_methods", methods)
    ctx.put("distinct_nontrivial", sp.nontrivial_count(tasks))
    ctx.put("rule", "MC: basis refresh schedule with per-factor failures (BasisUse: rotate iff every basis of the block exists; "
                    "RefreshTiming); R: eigh and QR (1/3/50 iterations) x beta2<1 / =1 x ignored dims x grafting x orders 0..4, per-factor "
                    "failures; at every refresh the STORED bases are checked (orthonormal; eigh: diagonalise the stored factor, ascending "
                    "Rayleigh quotients; QR with one iteration: columns of qr(A Q_prev) up to sign/order), written only at refresh steps "
                    "(bitwise otherwise); given the stored bases, corrected eigenvalues / direction / parameters equal the float64 "
                    "rotated-Adam reference (relative 1e-7); QR bases against the k-iteration update of the previous basis; dtype pairings incl. bf16 parameters with fp32 factors validated by TLC")
    if tasks:
        g0 = tasks[0][0]["groups"][0]
        ctx.sample({"group0": {k: g0[k] for k in ("shapes", "maxdim", "method", "qr_iters", "freq", "start", "beta2", "ignored")},
                    "behaviour": [{k: e[k] for k in e if k not in ("obs",)} for e in tasks[0][1]][:4]})
    ctx.assume("eigenvector sign / degenerate-subspace ambiguity is never compared directly: the reference uses the stored bases")


def replay(ctx, data):
    sp.replay_file(ctx, data, owns, "soap")
