"""C16 — state-dict flatten/unflatten and OptimizerModule state round-trip.

MC : StateDictMC (RoundTrip, DropsOnlyLeafless, Injective on the JSON-text model) over all small trees on a hostile alphabet
O  : StateDict.Flatten/Leafful/ModuleState evaluated by TLC vs. real flatten / unflatten / OptimizerModule
"""
from __future__ import annotations

import itertools
import random
from concurrent.futures import ThreadPoolExecutor

import torch

from harness import tlc

HOSTILE = ["a", 'a"', '"', "\\", '", "', "1", 1, "", "a.b", "a/b", "[", '["a"]', 0, "0", "]",
           # non-ASCII text: the two lone surrogates of U+1F600 as a 2-character key, the astral character itself, a lone surrogate,
           # Latin-1, NUL, a line separator, the text of a JSON escape; bool keys (a bool is an int: True == 1, False == 0 as dict keys
           # of DIFFERENT dicts must still come back as the type they went in), negative and large integers
           "\ud83d\ude00", "\U0001F600", "\ud83d", "\u00e9", "\x00", "\u2028", "\\ud83d", "\\u00e9", True, False, -1, 10, 2, "10", "2", 2 ** 40,
           "01", "1.0", "1e0", "-0", "+1", " 1", "1 ", "null", "true", "NaN", "Infinity"]

ORACLE = r"""
---- MODULE StateDictOracle ----
EXTENDS StateDict, Json, IOUtils
Cases == JsonDeserialize(IOEnv.CASES)
Terms(c) == IF c.n = 0 THEN {} ELSE {c.terms[i] : i \in 1..Len(c.terms)}
DictCase(c) == LET T == Terms(c) IN
   [wf |-> WellFormed(T), nflat |-> Cardinality(Flatten(T)), leafful |-> Leafful(T), rt |-> RoundTrip(T) /\ DropsOnlyLeafless(T)]
ModCase(c) == LET G == Terms(c) IN [state |-> ModuleState(G, c.store)]
ASSUME JsonSerialize(IOEnv.OUT, [i \in 1..Len(Cases) |-> IF Cases[i].mode = "dict" THEN DictCase(Cases[i]) ELSE ModCase(Cases[i])])
====
"""
MCKEYS = ('MCKeys == {[t |-> "s", v |-> <<97>>], [t |-> "s", v |-> <<97, 34>>], [t |-> "s", v |-> <<34>>], [t |-> "s", v |-> <<92>>], '
          '[t |-> "s", v |-> <<34, 44, 32, 34>>], [t |-> "s", v |-> <<49>>], [t |-> "i", v |-> <<49>>], [t |-> "s", v |-> <<>>], '
          '[t |-> "s", v |-> <<200, 201>>], [t |-> "s", v |-> <<202>>], [t |-> "s", v |-> <<200>>]}\n')
MC_CFG = """SPECIFICATION Spec
CONSTANTS Keys <- MCKeys
 MaxTerm = {t}
 MaxDepth = {d}
 MaxFan = 2
INVARIANT InvWellFormed
INVARIANT InvRoundTrip
INVARIANT InvDrops
INVARIANT InvInjective
CHECK_DEADLOCK FALSE
"""


def enc_key(k):
    if isinstance(k, bool):
        return {"t": "b", "v": [ord(c) for c in str(k)]}
    if isinstance(k, int):
        return {"t": "i", "v": [ord(c) for c in str(k)]}
    return {"t": "s", "v": [ord(c) for c in k]}


def dec_key(k):
    s = "".join(chr(c) for c in (k["v"] or []))
    return (s == "True") if k["t"] == "b" else int(s) if k["t"] == "i" else s


def terminals_of(d, prefix=()):
    """nested dict -> list of (path, kind) ; leaves are tensors, empty dicts are 'empty'."""
    out = []
    for k, v in d.items():
        p = prefix + (k,)
        if isinstance(v, dict):
            if v:
                out += terminals_of(v, p)
            else:
                out.append((p, "empty"))
        else:
            out.append((p, "leaf"))
    return out


def build_from_terminals(terms, leaves):
    d = {}
    for (p, kind) in terms:
        cur = d
        for k in p[:-1]:
            cur = cur.setdefault(k, {})
        cur[p[-1]] = leaves[p] if kind == "leaf" else {}
    return d


def same_tree(a, b):
    """structural equality incl. key TYPES and leaf identity."""
    if isinstance(a, dict) != isinstance(b, dict):
        return False
    if not isinstance(a, dict):
        return a is b
    if [(type(k), k) for k in a] != [(type(k), k) for k in b] and {(type(k), k) for k in a} != {(type(k), k) for k in b}:
        return False
    return all(same_tree(a[k], b[k]) for k in a)


def gen_small_dicts(keys, max_terms, max_depth):
    """all well-formed trees with <= max_terms terminals (as sorted tuples of (path, kind))."""
    paths = [p for n in range(1, max_depth + 1) for p in itertools.product(keys, repeat=n)]
    seen = set()
    frontier = {()}
    out = [()]
    for _ in range(max_terms):
        nxt = set()
        for tree in frontier:
            existing = [p for p, _ in tree]
            for p in paths:
                if any(p == q or p[:len(q)] == q or q[:len(p)] == p for q in existing):
                    continue
                for kind in ("leaf", "empty"):
                    t2 = tuple(sorted(tree + ((p, kind),), key=repr))
                    if t2 not in seen:
                        seen.add(t2)
                        nxt.add(t2)
        out += sorted(nxt, key=repr)
        frontier = nxt
    return out


def random_dict(rng, depth):
    n = rng.randint(0, 3)
    d = {}
    for _ in range(n):
        k = rng.choice(HOSTILE)
        if depth > 0 and rng.random() < 0.5:
            d[k] = random_dict(rng, depth - 1)
        else:
            d[k] = torch.tensor(float(rng.random()))
    return d


def dict_case(terms):
    return {"mode": "dict", "n": len(terms),
            "terms": [{"path": [enc_key(k) for k in p], "kind": kind} for p, kind in terms]}


def oracle_eval(cases, chunk=3000):
    chunks = [cases[i:i + chunk] for i in range(0, len(cases), chunk)]
    with ThreadPoolExecutor(max_workers=12) as ex:
        outs = list(ex.map(lambda c: tlc.oracle("StateDictOracle", ORACLE, c, tag="sd-o")[0], chunks))
    return [e for o in outs for e in o]


GLOBAL_KEYS: dict = {}


def check_dict_case(ctx, terms, exp):
    from distributed_shampoo.utils.shampoo_checkpoint_utils import flatten, unflatten
    # every third leaf is the RESULT of an operation on a tensor that requires grad (it carries a grad_fn), as state derived from parameters does
    leaves = {p: (torch.tensor(float(i)) if i % 3 else torch.nn.Parameter(torch.tensor(float(i))) * 1.0)
              for i, (p, kind) in enumerate(terms) if kind == "leaf"}
    d = build_from_terminals(terms, leaves)
    probs = []
    try:
        flat = flatten(d)
        got = unflatten(flat)
    except Exception as ex:  # noqa
        ctx.violation(f"flatten/unflatten raised {type(ex).__name__}: {str(ex)[:120]} on {terms}", {"kind": "statedict_oracle", "clause": "raised"},
                      {"mode": "dict", "terms": [[[enc_key(x) for x in p], k] for p, k in terms]})
        return False
    if len(flat) != exp["nflat"]:
        probs.append(("flat_key_count(injectivity)", exp["nflat"], len(flat)))
    if {id(v) for v in flat.values()} != {id(v) for v in leaves.values()}:
        probs.append(("flat_values_identity", "same tensor objects", "different"))
    for k, v in flat.items():
        path = next((p for p, t in leaves.items() if t is v), None)
        if path is not None:
            tp = tuple((type(x).__name__, x) for x in path)
            if GLOBAL_KEYS.setdefault(k, tp) != tp:
                probs.append(("flat_key_collision_across_dicts", GLOBAL_KEYS[k], tp))
    exp_terms = [(tuple(dec_key(k) for k in t["path"]), "leaf") for t in (exp["leafful"] or [])]
    want = build_from_terminals(exp_terms, leaves)
    if not same_tree(got, want) or not same_tree(want, got):
        probs.append(("unflatten(flatten(d))", repr(want)[:200], repr(got)[:200]))
    for clause, e, o in probs:
        ctx.violation(f"flatten/unflatten disagrees with StateDict spec on {terms}: {clause}: expected {e}, observed {o}",
                      {"kind": "statedict_oracle", "clause": clause.split("(")[0]}, {"mode": "dict", "terms": [[[enc_key(x) for x in p], k] for p, k in terms]})
    return not probs


# ---------------- OptimizerModule object graphs ------------------------------------------------------
def random_term(rng, depth):
    r = rng.random()
    if depth == 0 or r < 0.35:
        return ("tensor",)
    if r < 0.45:
        return ("scalar", rng.choice([3, "x", 2.5]))
    kind = rng.choice(["mod", "dict", "tuple", "list"])
    n = rng.randint(0, 3)
    if kind == "dict":
        return ("dict", [(rng.choice(["a", "b", 0, 1, "k.1"]) if True else None, random_term(rng, depth - 1)) for _ in range(n)])
    if kind == "mod":
        kids = [(f"f{i}", random_term(rng, depth - 1)) for i in range(n)]
        mods = [name for name, sub in kids if sub[0] == "mod"]
        if mods and rng.random() < 0.4:          # the SAME sub-module object reachable through a second attribute
            kids.append(("g_alias", ("alias", rng.choice(mods))))
        return ("mod", kids)
    return (kind, [random_term(rng, depth - 1) for _ in range(n)])


def build_obj(term, counter, tensors, scalars, path=(), share=True):
    from optimizer_modules import OptimizerModule
    k = term[0]
    if k == "tensor":
        counter[0] += 1
        v, kind = float(counter[0]), counter[0] % 1000 % 7
        if kind == 1:
            t = torch.nn.Parameter(torch.full((2,), v), requires_grad=False)       # tensor subclass, as optimizers commonly hold
        elif kind == 2:
            t = (torch.arange(6, dtype=torch.float32).view(3, 2) + v).t()           # non-contiguous (transposed) buffer
        elif kind == 3:
            t = torch.tensor(v)                                                      # 0-D
        elif kind == 4:
            t = torch.zeros((0, 3))                                                  # no elements
        elif kind == 5:
            t = (torch.arange(8, dtype=torch.float64) + v)[1::2]                     # strided slice of a larger buffer
        elif kind == 6:
            t = torch.full((2, 2), int(counter[0]), dtype=torch.int64)               # integer state (step counters)
        else:
            t = torch.full((2,), v)
        tensors[path] = t
        return t
    if k == "scalar":
        scalars[path] = term[1]
        return term[1]
    if k == "mod":
        class SubModule(OptimizerModule):          # the repository's own modules are (dataclass) subclasses
            pass
        m = SubModule() if len(path) % 2 == 1 else OptimizerModule()
        starts = {}
        for name, sub in term[1]:
            if sub[0] == "alias":
                target = next(s2 for n2, s2 in term[1] if n2 == sub[1])
                if share:
                    setattr(m, name, getattr(m, sub[1]))          # shared object; its tensors are reachable through both paths
                    for pth, t in list(tensors.items()):
                        if pth[:len(path) + 1] == path + (sub[1],):
                            tensors[path + (name,) + pth[len(path) + 1:]] = t
                    for pth, v in list(scalars.items()):
                        if pth[:len(path) + 1] == path + (sub[1],):
                            scalars[path + (name,) + pth[len(path) + 1:]] = v
                else:                                             # structurally equal (same tensor kinds as the target), separate objects
                    keep = counter[0]
                    counter[0] = starts[sub[1]]
                    setattr(m, name, build_obj(target, counter, tensors, scalars, path + (name,), share))
                    counter[0] = keep
                continue
            starts[name] = counter[0]
            setattr(m, name, build_obj(sub, counter, tensors, scalars, path + (name,), share))
        return m
    if k == "dict":
        import collections
        d = collections.OrderedDict() if len(path) % 3 == 1 else {}
        for key, sub in term[1]:
            if key in d:
                continue
            d[key] = build_obj(sub, counter, tensors, scalars, path + (key,), share)
        return d
    seq = [build_obj(sub, counter, tensors, scalars, path + (i,), share) for i, sub in enumerate(term[1])]
    return tuple(seq) if k == "tuple" else seq


def graph_terminals(term, path=()):
    k = term[0]
    if k == "tensor":
        return [(path, "tensor")]
    if k == "scalar":
        return [(path, "scalar")]
    if k == "dict":
        out, seen = [], set()
        for key, sub in term[1]:
            if key in seen:
                continue
            seen.add(key)
            out += graph_terminals(sub, path + (("dict", key),))
        return out or [(path, "empty")]
    if k == "mod":
        out = []
        for name, sub in term[1]:
            if sub[0] == "alias":
                sub = next(s2 for n2, s2 in term[1] if n2 == sub[1])
            out += graph_terminals(sub, path + (("attr", name),))
        return out or [(path, "empty")]
    out = []
    for i, sub in enumerate(term[1]):
        out += graph_terminals(sub, path + (("seq", i),))
    return out or [(path, "empty")]


def mod_case(term, store):
    terms = [t for t in graph_terminals(term) if t[0]]
    return {"mode": "mod", "store": store, "n": len(terms),
            "terms": [{"path": [{"c": c, "k": enc_key(k)} for c, k in p], "kind": kind} for p, kind in terms]}


def sd_terminals(sd, prefix=()):
    out = []
    for k, v in sd.items():
        p = prefix + (k,)
        if isinstance(v, dict):
            out += sd_terminals(v, p) if v else [(p, "empty")]
        else:
            out.append((p, "leaf"))
    return out


def check_mod_case(ctx, term, store, exp):
    from optimizer_modules import OptimizerModule
    if term[0] != "mod":
        return True
    c1, t1, s1 = [0], {}, {}
    m1 = build_obj(term, c1, t1, s1)
    c2, t2, s2 = [1000], {}, {}
    m2 = build_obj(term, c2, t2, s2, share=False)      # structurally equal; shared sub-modules of the source are separate objects here
    try:
        sd = m1.state_dict(store_non_tensors=store)
        m2_probe = None
    except Exception as ex:  # noqa
        ctx.violation(f"OptimizerModule.state_dict raised {type(ex).__name__} on {term}", {"kind": "module_oracle", "clause": "raised"},
                      {"mode": "mod", "term": term, "store": store})
        return False
    got = {(tuple((type(k).__name__, k) for k in p), kind) for p, kind in sd_terminals(sd)}
    want = {(tuple((type(dec_key(k)).__name__, dec_key(k)) for k in t["path"]), t["kind"]) for t in (exp["state"] or [])}
    # a dict with every scalar dropped shows up as an empty dict: the spec lists such containers as 'empty' only if
    # they hold no terminal at all, so compare tensors exactly and empties as a superset relation
    probs = []
    got_leaf = {p for p, k in got if k == "leaf"}
    want_leaf = {p for p, k in want if k == "leaf"}
    if got_leaf != want_leaf:
        probs.append(("state_dict_paths", sorted(map(repr, want_leaf))[:6], sorted(map(repr, got_leaf))[:6]))
    # every tensor reachable is present and aliases the module's tensor
    def lookup(d, p):
        for k in p:
            d = d[k]
        return d
    for p, t in t1.items():
        try:
            v = lookup(sd, p)
            if not (isinstance(v, torch.Tensor) and v.data_ptr() == t.data_ptr()):
                probs.append(("state_dict_tensor_alias", p, "not the module's storage"))
        except (KeyError, TypeError):
            probs.append(("state_dict_missing_tensor", p, "absent"))
    ids_before = {p: (id(t), t.data_ptr()) for p, t in t2.items()}
    try:
        m2.load_state_dict(sd, store_non_tensors=store)
    except Exception as ex:  # noqa
        ctx.violation(f"OptimizerModule.load_state_dict raised {type(ex).__name__}: {str(ex)[:100]} on {term}", {"kind": "module_oracle", "clause": "raised"},
                      {"mode": "mod", "term": term, "store": store})
        return False
    def walk(obj, p):
        if isinstance(obj, OptimizerModule):
            return walk(obj.__dict__, p)
        if isinstance(obj, dict):
            out = {}
            for k, v in obj.items():
                out.update(walk(v, p + (k,)))
            return out
        if isinstance(obj, (list, tuple)):
            out = {}
            for i, v in enumerate(obj):
                out.update(walk(v, p + (i,)))
            return out
        return {p: obj}
    after = walk(m2, ())
    for p, t in t2.items():
        a = after.get(p)
        if a is None or (id(a), a.data_ptr()) != ids_before[p]:
            probs.append(("load_replaced_tensor_object", p, "identity changed"))
        elif not torch.equal(a, t1[p]):
            probs.append(("load_value", t1[p].tolist(), a.tolist()))
    for p, s in s2.items():
        if after.get(p) != (s1[p] if store else s):
            probs.append(("load_scalar", s, after.get(p)))
    for clause, e, o in probs[:3]:
        ctx.violation(f"OptimizerModule state/load disagrees with spec on {term} (store_non_tensors={store}): {clause}: expected {e}, observed {o}",
                      {"kind": "module_oracle", "clause": clause}, {"mode": "mod", "term": term, "store": store})
    return not probs


def run(ctx):
    quick = ctx.tier == "quick"
    t, d = (3, 2)
    mod = (tlc.SPEC_DIR / "StateDictMC.tla").read_text().replace("VARIABLES T\n", "VARIABLES T\n" + MCKEYS)
    res = tlc.run("StateDictMC", mod, MC_CFG.format(t=t, d=d), tag="C16-mc", timeout=1500)
    ctx.add_tlc(res, f"StateDictMC terminals<={t} depth<={d} 8 hostile keys")
    if not res.ok:
        raise tlc.TLCMachineryError(f"StateDict spec fails its declarative properties: {res.violated}\n{res.stdout[-2000:]}")
    keys = ["a", 'a"', '", "', 1, "1", ""] if quick else ["a", 'a"', '"', "\\", '", "', 1, "1", "", "["]
    trees = gen_small_dicts(keys, 2 if quick else 3, 2)
    rng = random.Random(ctx.seed)
    rand = [tuple(terminals_of(random_dict(rng, rng.randint(1, 6)))) for _ in range(400 if quick else 6000)]
    all_trees = trees + rand
    cases = [dict_case(tr) for tr in all_trees]
    # module graphs
    terms = []
    for _ in range(300 if quick else 4000):
        tm = ("mod", [(f"f{i}", random_term(rng, rng.randint(0, 4))) for i in range(rng.randint(1, 3))])
        terms.append((tm, rng.random() < 0.3))
    cases += [mod_case(tm, st) for tm, st in terms]
    exp = oracle_eval(cases)
    nontrivial = 0
    for tr, e in zip(all_trees, exp[:len(all_trees)]):
        if not e["wf"]:
            raise tlc.TLCMachineryError(f"generator produced a tree the spec calls ill-formed: {tr}")
        check_dict_case(ctx, tr, e)
        ctx.add("evaluations")
        if any(len(p) > 1 for p, _ in tr):
            nontrivial += 1
    for (tm, st), e in zip(terms, exp[len(all_trees):]):
        check_mod_case(ctx, tm, st, e)
        ctx.add("evaluations")
        nontrivial += 1 if len(graph_terminals(tm)) > 1 else 0
    ctx.put("distinct_nontrivial", nontrivial)
    ctx.put("traces_validated_against_impl", len(cases))
    ctx.put("exhaustive", True)
    ctx.put("rule", f"MC: every well-formed nested dict with <={t} terminals, depth<={d}, fan-out<=2 over 8 hostile keys (quotes, "
                    f"backslash, separator look-alikes, int 1 vs str '1', empty string); oracle: every tree with <={2 if quick else 3} terminals over {keys} "
                    f"({len(trees)}) + seeded random trees of depth<=6 + random OptimizerModule graphs of nesting<=4; non-trivial = nested")
    ctx.sample({"dict_terminals": [[[ascii(x) for x in p], k] for p, k in all_trees[len(trees) // 2]]})
    ctx.sample({"module_term": terms[0][0], "store_non_tensors": terms[0][1]})
    ctx.assume("flat-key text is not compared with the spec's JSON model; only injectivity/round-trip of the real encoding is demanded")


def replay(ctx, data):
    r = data["replay"]
    if r["mode"] == "dict":
        terms = tuple((tuple(dec_key(x) if isinstance(x, dict) else x for x in p), k) for p, k in r["terms"])
        check_dict_case(ctx, terms, oracle_eval([dict_case(terms)])[0])
    else:
        def tup(t):
            if t[0] in ("tensor",):
                return ("tensor",)
            if t[0] == "scalar":
                return ("scalar", t[1])
            if t[0] in ("mod", "dict"):
                return (t[0], [(k, tup(s)) for k, s in t[1]])
            return (t[0], [tup(s) for s in t[1]])
        tm = tup(r["term"])
        check_mod_case(ctx, tm, r["store"], oracle_eval([mod_case(tm, r["store"])])[0])
    ctx.add("evaluations")
