"""C12 — eigenvector routines return orthonormal, ordered, diagonalising bases (restricted claim: DESIGN §9)."""
from __future__ import annotations

import itertools
import random

import torch

from harness.drivers import matrix_props as mp

F64 = torch.float64


def dispatch_cases():
    out = []
    for numel1, ndim2, square, isdiag, cfg, estzero in itertools.product([False, True], [False, True], [False, True], [False, True],
                                                                          ["eigh", "qr", "other"], [False, True]):
        if numel1 and not square:
            continue
        out.append({"mode": "eig", "haspec": False, "path": "eigen", "spec": [[1, 1]], "eps": [1, 1],
                    "d": dict(numel1=numel1, ndim2=ndim2, square=square, isdiag=isdiag, cfg=cfg, estzero=estzero)})
    return out


def real_eig_dispatch(d):
    import matrix_functions as mf
    import matrix_functions_types as mt
    if d["numel1"]:
        A = torch.tensor([[2.0]]) if d["ndim2"] else torch.tensor([[[2.0]]])
    elif not d["ndim2"]:
        A = torch.ones(2, 2, 2) if d["square"] else torch.ones(2, 3, 2)
    elif not d["square"]:
        A = torch.ones(2, 3)
    else:
        A = torch.diag(torch.tensor([1.0, 2.0, 3.0])) if d["isdiag"] else torch.tensor([[2.0, 0.5, 0.0], [0.5, 2.0, 0.1], [0.0, 0.1, 1.0]])
    cfg = {"eigh": mt.EighEigenvectorConfig(), "qr": mt.QRConfig(), "other": mp._Weird()}[d["cfg"]]
    est = torch.zeros_like(A) if d["estzero"] else (torch.eye(A.shape[-1]).expand_as(A).clone() if A.dim() >= 2 and A.shape[-1] == A.shape[-2] else torch.ones_like(A))
    called = []
    real_eigh, real_qr = mf.matrix_eigenvalue_decomposition, torch.linalg.qr

    def w1(*a, **k):
        called.append("eigh")
        return real_eigh(*a, **k)

    def w2(*a, **k):
        called.append("qr")
        return real_qr(*a, **k)
    mf.matrix_eigenvalue_decomposition = w1
    torch.linalg.qr = w2
    try:
        Q = mf.matrix_eigenvectors(A, eigenvectors_estimate=est, eigenvector_computation_config=cfg, is_diagonal=d["isdiag"])
        if not called:
            if Q.numel() == 1:
                return "ones" if float(Q.reshape(-1)[0]) == 1.0 else "scalar?"
            return "identity" if torch.equal(Q, torch.eye(Q.shape[0])) else "unknown"
        return "orthogonal_iteration" if "qr" in called else "eigh"
    except NotImplementedError:
        return "NotImplementedError"
    except ValueError:
        return "ValueError"
    except Exception as ex:  # noqa
        return type(ex).__name__
    finally:
        mf.matrix_eigenvalue_decomposition = real_eigh
        torch.linalg.qr = real_qr


def ref_orthogonal_iteration(a, q0, iters, tol):
    """float64 reference of the documented algorithm: Q <- qr(A Q) until the relative change is within tol or the
    iteration budget is used; columns then ordered by ascending Rayleigh quotient."""
    q = q0.to(F64)
    a = a.to(F64)
    it, err = 0, float("inf")
    while it < iters and err > tol:
        last = q
        q = torch.linalg.qr(a @ q).Q
        it += 1
        err = float((last - q).norm() / last.norm())
    ray = torch.einsum("ij,ik,kj->j", q, a, q)
    return q[:, ray.argsort()], it


def check_basis_case(ctx, rng, n, dt, kind, method, gen):
    import matrix_functions as mf
    import matrix_functions_types as mt
    u = torch.finfo(dt).eps
    if kind == "dead":
        # structurally singular input: some coordinates never receive a gradient (exactly zero rows / columns), integer-valued blocks
        k = rng.randrange(1, n)
        B = torch.randint(-3, 4, (k, max(k, 2)), generator=gen).to(F64)
        Ad = torch.zeros(n, n, dtype=F64)
        Ad[:k, :k] = B @ B.T
        perm = torch.randperm(n, generator=gen)
        Ad = Ad[perm][:, perm]
        A = Ad.to(dt)
        lam = torch.linalg.eigvalsh(Ad)
    else:
        spec = mp.spectrum_class(rng, n, kind)
        A, q, lam = mp.build_matrix(spec, rng.choice([1e-3, 1.0, 1e3]), n, gen, dt)
    Ad = A.to(F64)
    scale = max(float(Ad.abs().max()), 1e-300)
    probs = []
    case = {"n": n, "dtype": str(dt), "kind": kind, "method": method}
    if method == "eigh":
        Q = mf.matrix_eigenvectors(A, eigenvector_computation_config=mt.EighEigenvectorConfig()).to(F64)
        est_kind = None
    else:
        est_kind = rng.choice(["zero", "exact", "exact_permuted", "perturbed", "random"])
        iters = rng.choice([1, 2, 5, 50])
        tol = rng.choice([0.0, 1e-5, 1e-2])
        if est_kind == "zero":
            est = torch.zeros(n, n, dtype=dt)
        elif est_kind == "exact" and kind == "dead":
            est = mf.matrix_eigenvectors(A, eigenvector_computation_config=mt.EighEigenvectorConfig())    # the routine's own previous output
        elif est_kind == "exact":
            est = torch.linalg.eigh(Ad)[1].to(dt)
        elif est_kind == "exact_permuted":      # an exact eigenbasis whose columns are NOT in ascending order (e.g. a basis kept from before)
            est = torch.linalg.eigh(Ad)[1][:, torch.randperm(n, generator=gen)].to(dt)
        elif est_kind == "perturbed":
            est = torch.linalg.qr(torch.linalg.eigh(Ad)[1] + 0.05 * torch.randn(n, n, generator=gen, dtype=F64)).Q.to(dt)
        else:
            est = mp.haar(n, gen).to(dt)
        case.update(est=est_kind, iters=iters, tol=tol)
        Q = mf.matrix_eigenvectors(A, eigenvectors_estimate=est, eigenvector_computation_config=mt.QRConfig(max_iterations=iters, tolerance=tol)).to(F64)
    eye = torch.eye(n, dtype=F64)
    if not bool(torch.isfinite(Q).all()):
        ctx.violation(f"matrix_eigenvectors ({case}): finite: expected an orthonormal basis, observed NaN/Inf entries",
                      {"kind": "eigenvectors", "clause": "finite", "method": method}, {"basis": {**case, "seed": None}})
        return (method, est_kind, kind, str(dt), n > 8)
    oerr = float((Q.T @ Q - eye).abs().max())
    if oerr > 50 * n * u:
        probs.append(("orthonormal", f"|Q^T Q - I| <= {50 * n * u:.2e}", f"{oerr:.3e}"))
    ray = torch.einsum("ij,ik,kj->j", Q, Ad, Q)
    if n > 1 and bool((ray[1:] < ray[:-1] - 50 * n * u * scale).any()):
        probs.append(("ascending", "ascending (Rayleigh quotient) order", [round(float(x), 6) for x in ray][:8]))
    if method == "eigh" or est_kind == "zero":
        d = Q.T @ Ad @ Q
        off = float((d - torch.diag(torch.diag(d))).abs().max())
        if off > 100 * n * u * scale:
            probs.append(("diagonalises", f"offdiag(Q^T A Q) <= {100 * n * u * scale:.2e}", f"{off:.3e}"))
    elif dt == torch.float64 and kind == "distinct" and n <= 16:       # "graded" spectra contain repeated values
        # distinct eigenvalues: compare with the float64 reference iteration column by column up to sign
        qref, it = ref_orthogonal_iteration(Ad, est, iters, tol)
        m = (qref.T @ Q).abs()
        # orthogonal iteration amplifies rounding errors by (lambda_max / lambda_i) per step (the dominant direction leaks into the
        # other columns): column-wise comparisons are only meaningful while that amplification of one ulp stays far below the tolerance
        lpos = lam[lam > 0]
        amplification = (float(lpos.max() / lpos.min()) ** it) * 1e-16 if len(lpos) else float("inf")
        stable = amplification < 1e-9
        if stable and float((torch.diagonal(m) - 1).abs().max()) > 1e-6:
            probs.append(("orthogonal_iteration_update", "columns of the reference update up to sign", [round(float(x), 8) for x in torch.diagonal(m)][:8]))
        if stable and est_kind == "exact" and float(lam.min()) > 0:
            m0 = (est.to(F64).T @ Q).abs()
            # fixed point up to column signs (and the final re-ordering, which is the identity for an ascending exact basis)
            if float((torch.diagonal(m0) - 1).abs().max()) > 1e-6:
                probs.append(("fixed_point", "exact eigenbasis fixed up to column signs", [round(float(x), 8) for x in torch.diagonal(m0)][:8]))
    for clause, want, got in probs:
        ctx.violation(f"matrix_eigenvectors ({case}): {clause}: expected {want}, observed {got}", {"kind": "eigenvectors", "clause": clause, "method": method},
                      {"basis": {**case, "seed": None}})
    return (method, est_kind, kind, str(dt), n > 8)


def known_inputs(ctx):
    """Regression inputs of fixed findings.  D12: a 64 x 64 float32 Gram matrix of rank 19 with dead coordinates on which
    torch.linalg.eigh returns NaN without raising."""
    import matrix_functions as mf
    import matrix_functions_types as mt
    from pathlib import Path
    A = torch.load(Path(__file__).resolve().parent.parent / "data" / "eigh_silent_nan_f32_64.pt", weights_only=True)
    n = A.shape[0]
    Ad = A.to(F64)
    scale = float(Ad.abs().max())
    for label, q in (("eigh", lambda: mf.matrix_eigenvectors(A, eigenvector_computation_config=mt.EighEigenvectorConfig())),
                     ("qr_zero_estimate", lambda: mf.matrix_eigenvectors(A, eigenvectors_estimate=torch.zeros_like(A),
                                                                          eigenvector_computation_config=mt.QRConfig()))):
        ctx.add("evaluations")
        Q = q().to(F64)
        bad = None
        if not bool(torch.isfinite(Q).all()):
            bad = ("finite", "an orthonormal basis", f"{int((~torch.isfinite(Q)).sum())} NaN/Inf entries")
        elif float((Q.T @ Q - torch.eye(n, dtype=F64)).abs().max()) > 1e-4:
            bad = ("orthonormal", "|Q^T Q - I| <= 1e-4", float((Q.T @ Q - torch.eye(n, dtype=F64)).abs().max()))
        else:
            d = Q.T @ Ad @ Q
            off = float((d - torch.diag(torch.diag(d))).abs().max())
            if off > 1e-4 * scale:
                bad = ("diagonalises", f"offdiag <= {1e-4 * scale:.2e}", off)
        if bad:
            ctx.violation(f"matrix_eigenvectors ({label}) on the float32 rank-19 matrix with dead coordinates (harness/data/eigh_silent_nan_f32_64.pt): "
                          f"{bad[0]}: expected {bad[1]}, observed {bad[2]}", {"kind": "eigenvectors", "clause": bad[0], "method": label}, {"known_input": "eigh_silent_nan_f32_64"})


def run(ctx):
    quick = ctx.tier == "quick"
    rng = random.Random(ctx.seed * 7919 + 12)
    known_inputs(ctx)
    mp.run_mc(ctx, quick)
    cases = dispatch_cases()
    exp = mp.oracle_eval(cases, "C12-disp")
    for c, e in zip(cases, exp):
        got = real_eig_dispatch(c["d"])
        ctx.add("evaluations")
        if got != e["outcome"]:
            ctx.violation(f"matrix_eigenvectors dispatch differs from MatrixFn.EigenvectorDispatch on {c['d']}: expected {e['outcome']}, observed {got}",
                          {"kind": "eig_dispatch", "expected": e["outcome"], "observed": got}, {"dispatch": c["d"]})
    ctx.put("dispatch_descriptors", len(cases))
    gen = torch.Generator().manual_seed(ctx.seed + 12)
    classes = set()
    sizes = [2, 3, 5, 8, 16, 32] if quick else [2, 3, 4, 5, 8, 16, 32, 48, 64]
    for _ in range(400 if quick else 5000):
        n = rng.choice(sizes)
        dt = rng.choice([torch.float32, torch.float64])
        kind = rng.choice(["distinct", "distinct", "repeated", "rankdef", "graded", "identity", "dead"])
        method = rng.choice(["eigh", "qr", "qr"])
        classes.add(check_basis_case(ctx, rng, n, dt, kind, method, gen))
        ctx.add("evaluations")
    ctx.put("distinct_nontrivial", len(classes))
    ctx.put("traces_validated_against_impl", len(cases))
    ctx.put("rule", "MC: dispatch of matrix_eigenvectors (1x1 -> ones, diagonal flag -> identity, eigh, QR with zero estimate -> eigh, otherwise "
                    "orthogonal iteration) as a table evaluated by TLC and compared with the real routine on every descriptor; O: symmetric PSD "
                    "matrices n<=64 (32 quick) with distinct / repeated / rank-deficient / graded spectra, float32/64, eigh and QR (1..50 "
                    "iterations, tolerances) with zero / exact / exact-but-permuted / perturbed / random orthonormal estimates, also structurally singular "
                    "integer matrices with dead coordinates: orthonormality, diagonalisation (eigh), "
                    "ascending order, agreement with a float64 reference orthogonal iteration up to column signs (distinct spectra), fixed point "
                    "for exact eigenbases of positive definite matrices; distinct = (method, estimate, spectrum class, dtype, n>8)")
    ctx.sample({"dispatch": cases[5]["d"], "spec_says": exp[5]["outcome"]})
    ctx.assume("degenerate subspaces and column signs are never compared directly")


def replay(ctx, data):
    run(ctx)
