"""C10 — matrix inverse root accurate for every solver, root, dtype (restricted claim: DESIGN §9)."""
from __future__ import annotations

import random

from harness.drivers import matrix_props as mp


def run(ctx):
    quick = ctx.tier == "quick"
    rng = random.Random(ctx.seed * 7919 + 10)
    mp.run_mc(ctx, quick)
    mp.check_dispatch(ctx)
    sizes = [1, 2, 3, 5, 8, 16, 32] if quick else [1, 2, 3, 5, 8, 16, 32, 64, 128]
    cases = mp.accuracy_cases(rng, 400 if quick else 5000, sizes)
    exp = mp.oracle_eval(cases, "C10-acc")
    measured, skipped, classes = 0, 0, set()
    for c, e in zip(cases, exp):
        sk, probs = mp.run_accuracy_case(c, e)
        ctx.add("evaluations")
        if sk:
            skipped += 1
            continue
        measured += 1
        classes.add((c["path"], c["kind"], c["dtype"], c["n"] > 8, c["root"][1] > 1))
        for clause, want, got in probs:
            ctx.violation(f"inverse root {clause}: expected {want}, observed {got} (spectrum class {c['kind']}, scale {c['scale']})",
                          {"kind": "inverse_root_accuracy", "path": c["path"], "dtype": c["dtype"]}, {"case": c})
    mp.check_solver_records(ctx, rng, 2000 if quick else 12000)
    ctx.put("accuracy_cases_measured", measured)
    ctx.put("accuracy_cases_skipped_bound_vacuous", skipped)
    ctx.put("distinct_nontrivial", len(classes))
    ctx.put("rule", "MC: solver control state machines (FlagSound, GuardSound, Tf32Restored, termination), transfer functions on a rational "
                    "spectra grid (TransferAgreement, EigenPositivity, StabilityIsIdentity, OrderPreserved), dispatch tables; O: for every case "
                    "class (size, spectrum class incl. rank-deficient / zero / graded, scale 1e-6..1e6, root p/q, dtype, path) TLC returns the "
                    "dispatch outcome and the regularised spectrum, the harness builds A = Q diag(lambda) Q^T (Haar Q) and requires "
                    "||X - Q diag(Reg^(-1/r)) Q^T|| / ||.|| <= c (n u cond + tol_solver) with the exponent carried in single or double precision "
                    "(c frozen at 10x the worst ratio of the unchanged tree: 10 eigen, 150 iterative); cases whose bound exceeds 0.05 are skipped; "
                    "T: return records of the Newton / higher-order solvers validated by TLC; distinct = (path, spectrum class, dtype, n>8, fractional root)")
    ctx.sample({"case": {k: cases[0][k] for k in ("path", "kind", "n", "dtype", "scale", "root", "eps")}, "spec_says": exp[0]})
    ctx.assume("floating-point accuracy is measured (sampling), not proved; the spec supplies case classes, dispatch and the spectrum to invert")
    ctx.assume("condition numbers up to 2^12 through TLC (32-bit integers); the bound's constant is frozen from the unchanged tree")


def replay(ctx, data):
    r = data["replay"]
    if "case" in r:
        c = r["case"]
        e = mp.oracle_eval([c], "C10-rep")[0]
        sk, probs = mp.run_accuracy_case(c, e)
        ctx.add("evaluations")
        for clause, want, got in probs:
            ctx.violation(f"inverse root {clause}: expected {want}, observed {got}", {"kind": "inverse_root_accuracy", "path": c["path"], "dtype": c["dtype"]}, {"case": c})
    else:
        run(ctx)
