def run_blocking_invariance(ctx):
    ctx.note("blocking invariance (R) not yet wired")
