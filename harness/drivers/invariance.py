"""C05, invariance part: optimising a tensor under a blocking is the same computation as optimising its blocks as separate
parameters.  The blocks come from the SPEC (Blocking.Expected evaluated by TLC), so the run also cross-checks the real
merge / split against the specification once more."""
from __future__ import annotations

import copy
import random

import torch

from harness import family, realopt, tlc
from harness.drivers import shampoo_props as sp

ORACLE = r"""
---- MODULE BlockingOracle2 ----
EXTENDS Blocking, Json, IOUtils
Cases == JsonDeserialize(IOEnv.CASES)
ASSUME JsonSerialize(IOEnv.OUT, [i \in 1..Len(Cases) |->
   [merged |-> MergedShape(Cases[i].shape, Cases[i].thr, Cases[i].merge), blocks |-> Blocks(Cases[i].shape, Cases[i].thr, Cases[i].merge)]])
====
"""
SHAPES = [[4, 6], [5, 3], [2, 3, 4], [6], [3, 1, 4], [2, 2, 2, 3], [7, 2], [1, 5], [4, 4]]


def invariance_task(args):
    import logging
    logging.disable(logging.WARNING)
    torch.set_num_threads(1)
    draw, specs, masks = args
    try:
        g = draw["groups"][0]
        a_opt, a_params = realopt.build(draw)
        # run B: the spec's blocks as separate contiguous parameters, no further merging / blocking
        b_params, where = [], []
        for pi, (p, sp_) in enumerate(zip(a_params[0], specs)):
            merged = tuple(sp_["merged"])
            for blk in sp_["blocks"]:
                sl = tuple(slice(s, s + l) for s, l in blk)
                b_params.append(torch.nn.Parameter(p.detach().view(merged)[sl].clone().contiguous()))
                where.append((pi, merged, sl))
        gb = copy.deepcopy(g)
        gb["maxdim"], gb["merge"] = 1 << 20, False
        db = dict(draw, groups=[gb])
        b_opt, _ = realopt.build(db, params=[b_params])
        mm = []
        for t, m in enumerate(masks, start=1):
            grads = [realopt.make_grad(draw, 0, pi, t, shp) if m[pi] else None for pi, shp in enumerate(g["shapes"])]
            swap = draw["seed"] % 2 == 0          # half of the runs keep the .grad object and replace its storage (p.grad.data = g)
            for p, gr in zip(a_params[0], grads):
                if swap and gr is not None and p.grad is not None:
                    p.grad.data = gr.clone()
                else:
                    p.grad = None if gr is None else gr.clone()
            for bp, (pi, merged, sl) in zip(b_params, where):
                bp.grad = None if grads[pi] is None else grads[pi].view(merged)[sl].clone().contiguous()
            a_opt.step()
            b_opt.step()
            for bi, (bp, (pi, merged, sl)) in enumerate(zip(b_params, where)):
                a_blk = a_params[0][pi].detach().view(merged)[sl]
                err = float((a_blk - bp.detach()).abs().max()) if bp.numel() else 0.0
                scale = max(float(bp.detach().abs().max()) if bp.numel() else 0.0, 1e-30)
                if err > 1e-10 * scale:
                    mm.append((t, f"blocking_invariance.p{pi}.b{bi}", f"equal to the block optimised alone (max|.|={scale:.4g})", f"abs err {err:.3e}"))
            if mm:
                break
        return mm, None, None
    except Exception:
        import traceback
        return [], None, traceback.format_exc()


def run_blocking_invariance(ctx):
    quick = ctx.tier == "quick"
    rng = random.Random(ctx.seed * 7919 + 55)
    tasks, cases = [], []
    for _ in range(30 if quick else 400):
        shapes = [rng.choice(SHAPES) for _ in range(rng.choice([1, 2]))]
        thr = rng.choice([1, 2, 3, 4, 6, 1024])
        merge = rng.random() < 0.5
        family.TEMPLATES["_inv"] = dict(shapes=shapes, maxdim=thr, merge=merge, ignored=[])
        g = family.draw_group(rng, "_inv")
        if g["kind"] == "soap":
            g["method"] = "eigh"
        if isinstance(g["override"], list):
            g["override"] = 0
        d = family.make_draw(rng, [g])
        masks, cur = [], [True] * len(shapes)
        for _ in range(5):
            if rng.random() < 0.3:
                i = rng.randrange(len(cur))
                cur[i] = not cur[i]
            masks.append(list(cur))
        tasks.append([d, None, masks])
        cases += [{"shape": s, "thr": thr, "merge": merge} for s in shapes]
    exp, _ = tlc.oracle("BlockingOracle2", ORACLE, cases, tag="C05-inv")
    it = iter(exp)
    for t in tasks:
        t[1] = []
        for _ in t[0]["groups"][0]["shapes"]:
            e = next(it)
            t[1].append({"merged": list(e["merged"] or []), "blocks": [[list(x) for x in blk] for blk in e["blocks"]]})
    res = sp.pool_map(invariance_task, [tuple(t) for t in tasks])
    sp.collect(ctx, [(t[0], [{"ev": "masks", "masks": t[2]}], None) for t in tasks], res, [None] * len(tasks),
               lambda clause, p=None: "blocking_invariance" in clause, "blocking_invariance")
    ctx.add("blocking_invariance_runs", len(tasks))
