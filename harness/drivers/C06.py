"""C06 — DDP Shampoo equals serial Shampoo and keeps replicas identical."""
from __future__ import annotations

import random

from harness import family, tlc
from harness.drivers import dist_common as dc
from harness.drivers import shampoo_props as sp

DDP_TEMPLATES = {
    "b4": dict(shapes=[[4, 2], [4, 2]], maxdim=2, merge=False, ignored=[]),               # 4 equal blocks
    "b6": dict(shapes=[[4, 2], [2, 2], [6]], maxdim=2, merge=False, ignored=[]),         # 6 blocks, two sizes
    "b8": dict(shapes=[[8, 2], [4], [4, 2]], maxdim=2, merge=False, ignored=[]),         # 8 blocks
    "b3": dict(shapes=[[3, 3], [2], [5]], maxdim=8, merge=False, ignored=[]),            # 3 blocks of different sizes
    "b5": dict(shapes=[[5, 3], [2, 2], [7]], maxdim=3, merge=False, ignored=[]),         # uneven blocks
}


def mc_dist(W, GS, owner, nsteps, dev, inv, props, pgof=None):
    """pgof: parameter group (1-based) of every block; default one parameter group"""
    pgof = pgof or [1] * len(owner)
    mod = (f"---- MODULE MC_Dist ----\nEXTENDS ShampooDist\nMC_Owner == {tlc.tla_value(owner)}\nMC_PGOf == {tlc.tla_value(pgof)}\n"
           f"MC_Dev == {tlc.tla_value(set(dev)) if dev else '{}'}\n====\n")
    cfg = (f"SPECIFICATION Spec\nCONSTANTS W = {W}\n GS = {GS}\n NBlk = {len(owner)}\n Owner <- MC_Owner\n NSteps = {nsteps}\n"
           f" NPG = {max(pgof)}\n PGOf <- MC_PGOf\n"
           f" Deviations <- MC_Dev\n" + "".join(f"INVARIANT {i}\n" for i in inv) + "".join(f"PROPERTY {p}\n" for p in props))
    return tlc.run("MC_Dist", mod, cfg, tag="C06-mc", timeout=1800)


BIG = dict(shapes=[[1024, 1024], [1024, 1024], [1024], [1024]], maxdim=1024, merge=False, ignored=[])   # > 4 MiB per rank, not a multiple of 4 MiB


def make_task(rng, W=None, GS=None, starve=None, variant=None):
    """variant "long": 22 steps with a constant presence pattern for 18 steps and changes afterwards (state that is only
    refreshed / compared every so often); variant "big": megabytes per rank in the gather buffer."""
    if variant == "big":
        W, GS = 2, 2
    elif variant == "long":
        W = W or rng.choice([2, 2, 3, 4])
        GS = GS or rng.choice([1, 1, W])          # with one trainer per group no rank can be starved (D5a), whatever the late change is
    W = W or rng.choice([1, 2, 2, 3, 4, 4, 6, 8])
    GS = GS or rng.choice([d for d in range(1, W + 1) if W % d == 0])
    name = rng.choice([k for k, t in DDP_TEMPLATES.items() if int(k[1:]) >= GS])
    family.TEMPLATES["_ddp"] = BIG if variant == "big" else DDP_TEMPLATES[name]
    g = family.draw_group(rng, "_ddp", method=None)
    if g["kind"] == "soap":
        g["method"] = "eigh"
    if variant == "big":
        name = "big"
        g.update(kind="shampoo", method="eigen", freq=1, start=1, override=0, mult=1.0)
    groups = [g]
    if variant is None and rng.random() < 0.3:          # a second parameter group: own distributor, same process groups, gathers one after the other
        name2 = rng.choice([k for k in DDP_TEMPLATES if int(k[1:]) >= GS])
        family.TEMPLATES["_ddp"] = DDP_TEMPLATES[name2]
        g2 = family.draw_group(rng, "_ddp", method=None)
        if g2["kind"] == "soap":
            g2["method"] = "eigh"
        groups.append(g2)
    for gg in groups:
        r = rng.random()
        n = len(gg["shapes"])
        if r < 0.12:
            gg["dtypes"] = ["float64"] * n                       # FP32 communication is then REDUCED precision
        elif r < 0.2:
            gg["dtypes"] = [rng.choice(["bfloat16", "float16"])] * n
        elif r < 0.4:                                            # mixed-precision group, any order (narrow first included)
            gg["dtypes"] = [rng.choice(["bfloat16", "float32", "float32", "float64", "float16"]) for _ in range(n)]
    draw = family.make_draw(rng, groups, dtype="float32", pdtype="float32")
    if variant == "big":
        for gg in groups:
            gg.pop("dtypes", None)
        draw.pop("grad_mode", None)
        masks = [[[True] * len(g["shapes"])] for _ in range(2)]
    elif variant == "long":
        n_par = len(g["shapes"])
        base = [True] * n_par
        frozen = rng.randrange(n_par) if n_par > 1 else None
        if frozen is not None:
            base[frozen] = False                            # a parameter that is frozen for the first 18 steps ...
        masks = [[list(base)] for _ in range(18)]
        cur = list(base)
        for k in range(4):                                   # ... is unfrozen at step 19; further changes follow
            j = frozen if (k == 0 and frozen is not None) else rng.randrange(n_par)
            cur[j] ^= True
            if not any(cur):
                cur[rng.randrange(n_par)] = True
            masks.append([list(cur)])
    else:
        masks = dc.random_masks(rng, draw, rng.choice([3, 4, 5]))
    return {"draw": draw, "W": W, "GS": GS, "comm": "fp32" if variant == "big" else rng.choice(["fp32", "fp32", "bf16", "fp16"]),
            "comm_params": rng.random() < 0.4,
            "masks": masks, "seed": rng.randrange(1 << 30), "template": name}


def owner_from_info(res, GS, gi=0):
    sel = [res["info"][str(r)][gi]["selector"] for r in range(GS)]
    n = len(sel[0])
    owner = []
    for b in range(n):
        owners = [r for r in range(GS) if sel[r][b]]
        owner.append(owners[0] if len(owners) == 1 else -1)
    return owner


def block_masks(task, res, gi=0):
    """per step: the 1-based blocks of parameter group gi that have a gradient (blocks follow their parameter)"""
    g = task["draw"]["groups"][gi]
    from harness import adapter
    counts = []
    for shp in g["shapes"]:
        r = adapter.real_blocking(shp, g["maxdim"], g["merge"])
        counts.append(len(r["shapes"]))
    out = []
    for m in task["masks"]:
        blocks, b = [], 0
        for pi, c in enumerate(counts):
            for _ in range(c):
                b += 1
                if m[gi][pi]:
                    blocks.append(b)
        out.append(blocks)
    return out


TRACE = "---- MODULE DistTraceRun ----\nEXTENDS DistTrace\n====\n"


def evaluate(ctx, tasks, results, prop="C06"):
    cases, keep = [], []
    for i, (task, res) in enumerate(zip(tasks, results)):
        if "crash" in res:
            raise tlc.TLCMachineryError("simulated-rank worker crashed:\n" + res["crash"])
        if not res["info"]:
            ctx.violation(f"no rank finished construction: {res['errors']}", {"kind": "construction_failed"}, {"task": task})
            continue
        npg = len(task["draw"]["groups"])
        pgs = [{"owner": owner_from_info(res, task["GS"], gi), "seg": res["info"]["0"][gi]["seg"]} for gi in range(npg)]
        per_pg = [block_masks(task, res, gi) for gi in range(npg)]
        masks = [[per_pg[gi][k] for gi in range(npg)] for k in range(len(task["masks"]))]
        cases.append({"W": task["W"], "GS": task["GS"], "pgs": pgs, "masks": masks, "logs": res["logs"]})
        keep.append(i)
    verdicts, _ = tlc.oracle("DistTraceRun", TRACE, cases, tag=f"{prop}-trace") if cases else ([], None)
    for i, v, case in zip(keep, verdicts, cases):
        task, res = tasks[i], results[i]
        ctx.add("evaluations")
        ctx.add("traces_validated_against_impl")
        rep = {"task": task}
        # construction: process-group creations
        if v["creation"] == "LazyOwnerMesh":
            ctx.violation("ranks issue different new_group(ranks) at the same creation index (DeviceMesh for block state created "
                          "lazily by owner ranks only)", {"kind": "lazy_owner_mesh", "distributor": "ddp"}, rep)
        elif v["creation"] != "ok":
            ctx.violation(f"process-group creation sequences differ between ranks and are not explained by the specification: "
                          f"{[l['created'] for l in res['logs']]}", {"kind": "group_creation", "verdict": v["creation"]}, rep)
        # ownership: every block's state lives on exactly one rank of the group
        for pg in case["pgs"]:
            if -1 in pg["owner"]:
                ctx.violation(f"a block is owned by zero or several ranks of its group: {pg['owner']}", {"kind": "owner_unique"}, rep)
        for r, inf in res["info"].items():
            for gi, ig in enumerate(inf):
                if ig["n_state_blocks"] != ig["n_local"]:
                    ctx.violation(f"rank {r} holds optimizer state for {ig['n_state_blocks']} blocks of parameter group {gi} but owns {ig['n_local']}",
                                  {"kind": "state_on_non_owner"}, rep)
        # step phase
        starving = v["starves"]
        bad_run = res["verdict"] is not None or res["param_mismatch"] or any(res["errors"].values())
        if v["gathers"] == "SkipOnLocalEmpty" or (starving and bad_run):
            ctx.violation("a rank whose blocks all lack a gradient skips the group's all_gather (peers block or pair with a later call)",
                          {"kind": "rank_starvation"}, rep)
        else:
            if v["gathers"] != "ok":
                ctx.violation(f"per-rank all_gather sequences are not the ones the specification prescribes: "
                              f"{[len(l['gathers']) for l in res['logs']]} vs expected {v['expected_gathers']}",
                              {"kind": "collective_sequence", "verdict": v["gathers"]}, rep)
            if res["verdict"] is not None:
                ctx.violation(f"simulated ranks ended in {res['verdict']}: {res['errors']}", {"kind": "hang", "verdict": res["verdict"]}, rep)
            elif any(res["errors"].values()):
                ctx.violation(f"a rank raised: {res['errors']}", {"kind": "rank_exception"}, rep)
            if res["param_mismatch"]:
                ctx.violation(f"parameters differ from the serial optimizer (communicated quantity rounded through {task['comm']}): "
                              f"first at {res['param_mismatch'][0]} (W={task['W']}, GS={task['GS']}, communicate_params={task['comm_params']})",
                              {"kind": "serial_equivalence", "comm": task["comm"]}, rep)
    return cases, verdicts


def run(ctx):
    quick = ctx.tier == "quick"
    rng = random.Random(ctx.seed * 7919 + 6)
    INV = ("SerialEquivalence", "ReplicaAgreement", "OwnerUnique", "InvCreation")
    mcs = [(2, 1, [0, 0, 0], 3), (2, 2, [0, 1, 0], 3), (3, 3, [0, 1, 2], 3), (4, 2, [0, 1, 0, 1], 2), (4, 4, [0, 1, 2, 3], 2)]
    mcs = [m + (None,) for m in mcs] + [(2, 2, [0, 1, 1, 0], 2, [1, 1, 2, 2]), (3, 3, [0, 1, 2, 2, 1, 0], 1, [1, 1, 1, 2, 2, 2])]
    if not quick:
        mcs += [(4, 2, [0, 1, 0, 1], 3, None), (4, 4, [0, 1, 2, 3, 0], 2, None), (3, 1, [0, 0, 0], 3, None), (4, 1, [0, 0, 0], 3, None),
                (4, 2, [0, 0, 1], 3, None), (4, 2, [0, 1, 0, 1], 2, [1, 1, 2, 2]), (4, 2, [0, 1, 0, 1, 1], 2, [1, 1, 2, 2, 2])]
    for W, GS, owner, ns, pgof in mcs:
        res = mc_dist(W, GS, owner, ns, (), INV, ("NoRankLeftWaiting",), pgof)
        ctx.add_tlc(res, f"ShampooDist W={W} GS={GS} owner={owner} param groups={pgof or 1} steps={ns}, all mask histories, all interleavings, liveness")
        if not res.ok:
            raise tlc.TLCMachineryError(f"ShampooDist (repaired design) violates {res.violated} deadlock={res.deadlock}\n" + "\n".join(res.trace)[-2000:])
    wit = []
    r1 = mc_dist(4, 2, [0, 1, 0, 1], 2, ("SkipOnLocalEmpty",), ("SerialEquivalence",), ())
    r2 = mc_dist(4, 2, [0, 1, 0, 1], 1, ("LazyOwnerMesh",), ("InvCreation",), ())
    r3 = mc_dist(2, 2, [0, 1, 0, 1], 1, ("SkipOnLocalEmpty",), ("SerialEquivalence",), (), [1, 1, 2, 2])
    if r1.ok or r2.ok or r3.ok:
        raise tlc.TLCMachineryError("vacuity: the named deviations do not violate the ShampooDist invariants")
    wit = [{"deviation": "SkipOnLocalEmpty", "violates": r1.violated + (["deadlock"] if r1.deadlock else [])},
           {"deviation": "LazyOwnerMesh", "violates": r2.violated}]
    ctx.put("deviation_witnesses", wit)
    tasks = [make_task(rng) for _ in range(40 if quick else 600)]
    tasks += [make_task(rng, variant="long") for _ in range(4 if quick else 40)] + [make_task(rng, variant="big") for _ in range(1 if quick else 4)]
    results = sp.sim_map(dc.run_ddp_task, tasks, lambda r: bool(r.get("crash") or r.get("verdict") or r.get("param_mismatch") or any((r.get("errors") or {}).values())))
    ctx.put("worlds_not_reproduced_on_rerun", sum(1 for r in results if r.get("_flaky_first_run")))
    cases, verdicts = evaluate(ctx, tasks, results)
    hist = {}
    for t, v in zip(tasks, verdicts):
        k = f"W={t['W']},GS={t['GS']},{t['comm']},params={t['comm_params']},pgs={len(t['draw']['groups'])}"
        if any(g.get("dtypes") for g in t["draw"]["groups"]):
            ctx.add("worlds_with_non_float32_parameters")
        hist[k] = hist.get(k, 0) + 1
    ctx.put("configurations_run", hist)
    ctx.put("histories_with_starvation", sum(1 for v in verdicts if v["starves"]))
    ctx.put("distinct_nontrivial", sum(1 for t in tasks if t["W"] > 1 and len({repr(m) for m in t["masks"]}) > 1))
    ctx.put("rule", "MC: ShampooDist for W<=4, every divisor group size, 3-6 blocks in one or two parameter groups (gathers of different groups have different signatures), every mask history, every interleaving of rank-local "
                    "computation and group gathers: deadlock freedom, NoRankLeftWaiting (liveness), SerialEquivalence, ReplicaAgreement, "
                    "OwnerUnique, CreationAgreement; R: the real DDPDistributor + optimizer on W<=8 simulated ranks (thread-per-rank process "
                    "group, arrival gates with seeded release order, exact deadlock/mismatch detection), float32 / float64 / 16-bit / mixed parameters, FP32/BF16/FP16 "
                    "communication, communicate updates or parameters, Shampoo and SOAP, random mask histories; every rank after every step "
                    "bitwise equal to the serial optimizer whose communicated quantity is rounded through the communication dtype; T: per-rank "
                    "logs of group creations and gathers validated by TLC (DistTrace) against the specification; non-trivial = W>1 with a mask change")
    if tasks:
        ctx.sample({"W": tasks[0]["W"], "GS": tasks[0]["GS"], "comm": tasks[0]["comm"], "communicate_params": tasks[0]["comm_params"],
                    "shapes": [g["shapes"] for g in tasks[0]["draw"]["groups"]], "masks": tasks[0]["masks"], "verdict": verdicts[0] if verdicts else None})
    ctx.assume("the threaded process group stands in for the transport; group-creation consistency is decided on the logs by the "
               "specification, not by waiting for a hang")
    ctx.assume("gradients are identical on all ranks (already reduced by DDP)")


def replay(ctx, data):
    task = data["replay"]["task"]
    results = sp.pool_map(dc.run_ddp_task, [task])
    evaluate(ctx, [task], results)
