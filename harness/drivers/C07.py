"""C07 — FSDP / HSDP Shampoo equals serial Shampoo on the shard's recovered tensor blocks."""
from __future__ import annotations

import math
import random

from harness import family, tlc
from harness.drivers import C06
from harness.drivers import dist_common as dc
from harness.drivers import shampoo_props as sp

ORACLE = r"""
---- MODULE ShardOracle ----
EXTENDS SplitRecovery, Json, IOUtils
Cases == JsonDeserialize(IOEnv.CASES)
ASSUME JsonSerialize(IOEnv.OUT, [i \in 1..Len(Cases) |->
   [shards |-> FlatShardsA(Cases[i].shapes, Cases[i].S, Cases[i].align), pieces |-> ShardPiecesA(Cases[i].shapes, Cases[i].S, Cases[i].align)]])
====
"""
FS_CFG = ("SPECIFICATION Spec\nCONSTANTS MaxParams = {p}\n MaxOrder = {o}\n MaxNumel = {n}\n MaxN = {k}\n"
          "INVARIANT InvExactlyOnce\nINVARIANT InvExactlyOnceAligned\nINVARIANT InvShardsDisjoint\nCHECK_DEADLOCK FALSE\n")
SHAPES = [[[4, 3], [5]], [[3, 4, 2]], [[7, 2], [3, 3], [4]], [[2, 3, 2, 2], [6]], [[5, 5]], [[6, 2], [2, 2, 3]], [[9], [4, 4]], [[3, 7]],
          [[6, 10], [10]], [[8, 6]], [[4, 5, 3]], [[5, 8], [3, 8]],      # the last ones give slabs of several rows that are cut into column blocks
          # singleton dimensions (Linear(1, n).weight, 1x1 convolution kernels, broadcast scales): trailing, leading, in the middle
          # equal shapes whose shards on one rank have equal lengths at different offsets (rank 1 of 3 holds the second half of one and the
          # first half of the next)
          [[12], [4, 3], [4, 3], [12]], [[6], [4, 3], [4, 3], [6]], [[4], [2, 3, 2], [2, 3, 2], [4]], [[3], [6, 2], [6, 2], [3], [2]],
          [[6, 1], [4]], [[4, 2, 1, 1], [3]], [[5, 1, 1]], [[1, 6], [3, 1], [2, 2]], [[3, 1, 4]], [[1], [7, 1]], [[], [5, 1], [3]]]


def make_task(rng, kind):
    shapes = rng.choice(SHAPES)
    total = sum(int(__import__("math").prod(s)) for s in shapes)
    S = rng.choice([s for s in (1, 2, 2, 3, 3, 4, 5, 8) if s <= total // 2])
    family.TEMPLATES["_sh"] = dict(shapes=shapes, maxdim=rng.choice([2, 3, 4, 4, 5, 1024]), merge=rng.random() < 0.4, ignored=[])
    g = family.draw_group(rng, "_sh")
    if g["kind"] == "soap":
        g["method"] = "eigh"
    if rng.random() < 0.7:
        g["start"] = g["freq"]          # short runs: most of them should reach the preconditioned phase
    draw = family.make_draw(rng, [g], dtype="float32", pdtype="float32")
    n = rng.choice([4, 5])
    masks, cur = [], [True] * len(shapes)
    for _ in range(n):
        if rng.random() < 0.3:
            i = rng.randrange(len(cur))
            cur[i] = not cur[i]
        masks.append(list(cur))
    t = {"kind": kind, "shapes": shapes, "S": S, "draw": draw, "masks": masks, "seed": rng.randrange(1 << 30), "align": rng.choice([1, 4])}
    # insertion order of param_to_metadata (nested FSDP units list the root unit's parameters first, model.parameters() does not)
    t["meta_order"] = rng.sample(range(len(shapes)), len(shapes)) if rng.random() < 0.5 else list(range(len(shapes)))
    t["dup_fqn"] = rng.random() < 0.5
    # the shard of a parameter is the same under every strategy that shards parameters at optimizer time
    t["strategy"] = rng.choice(["FULL_SHARD", "FULL_SHARD", "SHARD_GRAD_OP", "HYBRID_SHARD", "_HYBRID_SHARD_ZERO2"])
    if kind == "hsdp":
        t["S"] = min(S, 3)
        t["R"] = rng.choice([1, 2, 2, 4]) if t["S"] <= 2 else rng.choice([1, 2])
        t["GS"] = rng.choice([d for d in (1, 2, 4) if t["R"] % d == 0])
        t["comm"] = rng.choice(["fp32", "default", "bf16"])
        t["comm_params"] = rng.random() < 0.4
        if t["R"] > 1 and rng.random() < 0.4:
            rows = list(range(t["R"]))
            while rows == sorted(rows):
                rng.shuffle(rows)
            t["mesh_rows"] = rows
    return t


def make_dup_fqn(rng):
    """nested FSDP units: two equal-shaped "weight"s whose shards on one rank have the same length at different offsets"""
    for _ in range(200):
        t = make_task(rng, "fsdp")
        if t["shapes"] == [[12], [4, 3], [4, 3], [12]]:
            # 3 ranks of 16 elements: rank 1 holds weight[4:12] and the next weight[0:8] - same length, different slabs
            t.update(S=3, align=1, dup_fqn=True)
            return t
    return t


def make_singleton_hsdp(rng):
    """HSDP on shapes with singleton dimensions, dimensions not merged"""
    for _ in range(100):
        t = make_task(rng, "hsdp")
        if any(1 in s for s in t["shapes"]) and not t["draw"]["groups"][0]["merge"]:
            return t
    return t


def attach_spec(tasks):
    exp, _ = tlc.oracle("ShardOracle", ORACLE, [{"shapes": t["shapes"], "S": t["S"], "align": t.get("align", 1)} for t in tasks], tag="C07-o")
    for t, e in zip(tasks, exp):
        t["shards"] = [[list(x) for x in rank] for rank in e["shards"]]
        t["pieces"] = [[[{"off": p["off"], "len": p["len"], "shp": list(p["shp"])} for p in (pp or [])] for pp in rank] for rank in e["pieces"]]
    return tasks


def usable(t):
    """the code asserts at least one block per rank; for HSDP every replicate rank of a group must own a block"""
    for k in range(t["S"]):
        n_pieces = sum(len(pp) for pp in t["pieces"][k])
        if n_pieces == 0:
            return False
    return True


MESH_TRACE = r"""
---- MODULE MeshTraceRun ----
EXTENDS DistCore, Json, IOUtils, TLC
Cases == JsonDeserialize(IOEnv.CASES)
Match(x, dev) == \A r \in 0..(x.W - 1) : x.misses[r + 1] = MeshMissesC(x.grid, x.GS, r, dev)
Verdict(x) == IF Match(x, {}) THEN "ok" ELSE IF Match(x, {"MeshOrderEnumeration"}) THEN "MeshOrderEnumeration" ELSE "unexplained"
ASSUME JsonSerialize(IOEnv.OUT, [i \in 1..Len(Cases) |-> [verdict |-> Verdict(Cases[i]),
                                                            expected |-> [r \in 0..(Cases[i].W - 1) |-> MeshMissesC(Cases[i].grid, Cases[i].GS, r, {})]]])
====
"""


def mesh_mc(ctx, quick):
    """MC: every arrangement of the ranks in an R x S mesh, every group size: all ranks create the same DeviceMeshes in the same
    order and a block's state lives where its owner's group rank points; the deviation MeshOrderEnumeration (D11) must break it."""
    spec = (tlc.SPEC_DIR / "MeshMC.tla").read_text()

    def one(R, S, dev, invs):
        cfg = (f"SPECIFICATION Spec\nCONSTANTS R = {R}\n S = {S}\n Deviations <- MC_Dev\n" + "".join(f"INVARIANT {i}\n" for i in invs)
               + "CHECK_DEADLOCK FALSE\n")
        return tlc.run("MeshMC", spec.replace("VARIABLE grid", "VARIABLE grid\nMC_Dev == " + dev), cfg, tag=f"{ctx.prop}-meshmc", timeout=1500)
    for R, S in [(2, 2), (3, 2), (2, 3)] + ([] if quick else [(4, 1), (1, 4), (3, 1)]):
        res = one(R, S, "{}", ("InvMeshCreation", "InvStateOnOwner"))
        ctx.add_tlc(res, f"MeshMC every arrangement of {R}x{S}, every group size")
        if not res.ok:
            raise tlc.TLCMachineryError(f"MeshMC {R}x{S} violates {res.violated} {res.errors}")
    w1 = one(2, 2, '{"MeshOrderEnumeration"}', ("InvMeshCreation",))
    w2 = one(2, 2, '{"MeshOrderEnumeration"}', ("InvDeviationExact", "InvStateOnOwner"))
    if w1.ok or not w2.ok:
        raise tlc.TLCMachineryError("vacuity: MeshOrderEnumeration does not behave as specified (must break creation agreement exactly on non-ascending columns)")


def check_mesh_requests(ctx, tasks, results, prop):
    """T: the DeviceMeshes every rank had to CREATE (cache misses of get_device_mesh, in order) against DistCore!MeshMissesC."""
    cases, where = [], []
    for ti, (task, res) in enumerate(zip(tasks, results)):
        if task["kind"] not in ("hsdp", "hybrid") or "meshes" not in res or res.get("errors") and any(res["errors"].values()):
            continue
        S, R = task["S"], task["R"]
        rows = task.get("mesh_rows") or list(range(R))
        grid = [[r * S + c for c in range(S)] for r in rows]
        W = R * S
        misses = [[m for m in res["meshes"][r] if m and isinstance(m[0], list)] for r in range(W)]
        cases.append({"W": W, "GS": task["GS"], "grid": grid, "misses": misses})
        where.append(ti)
    if not cases:
        return
    out = tlc.oracle("MeshTraceRun", MESH_TRACE, cases, tag=f"{prop}-mesh")[0]
    for ti, c, v in zip(where, cases, out):
        ctx.add("mesh_request_traces")
        rep = {"task": {k: x for k, x in tasks[ti].items() if k != "_res"}}
        if v["verdict"] == "MeshOrderEnumeration":
            ctx.violation(f"ranks create different DeviceMeshes (replicate groups enumerated in the order of the user's mesh {c['grid']}, "
                          f"allocation in ascending rank order): {c['misses']}", {"kind": "mesh_order_enumeration"}, rep)
        elif v["verdict"] != "ok":
            ctx.violation(f"DeviceMesh creations per rank are not the ones the specification prescribes for mesh {c['grid']}, group size "
                          f"{c['GS']}: observed {c['misses']}, expected {v['expected']}", {"kind": "mesh_requests"}, rep)


def evaluate(ctx, tasks, results, prop):
    check_mesh_requests(ctx, tasks, results, prop)
    cases, where = [], []
    for ti, (task, res) in enumerate(zip(tasks, results)):
        if "crash" in res:
            raise tlc.TLCMachineryError("simulated-rank worker crashed:\n" + res["crash"])
        ctx.add("evaluations")
        rep = {"task": {k: v for k, v in task.items()}}
        hsdp = task["kind"] in ("hsdp", "hybrid")
        S = task["S"]
        W = S * (task.get("R", 1) if hsdp else 1)
        if any("no parameters to work on" in v for v in res["errors"].values()):
            ctx.add("skipped_no_block_for_some_rank")
            continue
        starving = False
        if hsdp:
            created = [l["created"] for l in res["logs"]]
            if any(c != created[0] for c in created):
                ctx.violation(f"process-group creation sequences differ between ranks: {created}", {"kind": "group_creation"}, rep)
            for s in range(S):
                col = [r for r in range(W) if r % S == s]
                if any(str(r) not in res["info"] for r in col):
                    continue
                GS = task["GS"]
                sel = [res["info"][str(r)]["selector"] for r in col[:GS]]
                owner = []
                for b in range(len(sel[0])):
                    o = [i for i in range(GS) if sel[i][b]]
                    owner.append(o[0] if len(o) == 1 else -1)
                if -1 in owner:
                    ctx.violation(f"a block is owned by zero or several ranks of its group: {owner}", {"kind": "owner_unique"}, rep)
                bpp = res["info"][str(col[0])]["blocks_per_param"]
                ne = res["info"][str(col[0])].get("nonempty")
                pidx = [i for i, x in enumerate(ne) if x] if ne is not None else list(range(len(bpp)))   # fully_shard filters empty shards
                masks = []
                for m in task["masks"]:
                    blocks, b = [], 0
                    for i, c in zip(pidx, bpp):
                        for _ in range(c):
                            b += 1
                            if m[i]:
                                blocks.append(b)
                    masks.append(blocks)
                logs = [{"created": [], "gathers": [{"grp": [x // S for x in gth["grp"]], "inb": gth["inb"], "outb": gth["outb"]}
                                                     for gth in res["logs"][r]["gathers"]]} for r in col]
                cases.append({"W": len(col), "GS": GS, "pgs": [{"owner": owner, "seg": res["info"][str(col[0])]["seg"]}],
                              "masks": [[m] for m in masks], "logs": logs})
                where.append(ti)
        tasks[ti]["_res"] = res
    verdicts = tlc.oracle("DistTraceRun", C06.TRACE, cases, tag=f"{prop}-trace")[0] if cases else []
    starving_tasks = set()
    for ti, v in zip(where, verdicts):
        ctx.add("traces_validated_against_impl")
        if v["starves"]:
            starving_tasks.add(ti)
    for ti, v in zip(where, verdicts):
        task, res = tasks[ti], tasks[ti]["_res"]
        rep = {"task": {k: x for k, x in task.items() if k != "_res"}}
        bad_run = res["verdict"] is not None or res["param_mismatch"] or any(res["errors"].values())
        if v["gathers"] == "SkipOnLocalEmpty" or (v["starves"] and bad_run):
            ctx.violation("a replicate rank whose blocks all lack a gradient skips the group's all_gather", {"kind": "rank_starvation"}, rep)
        elif v["gathers"] != "ok":
            ctx.violation(f"per-rank all_gather sequences are not the ones the specification prescribes (expected {v['expected_gathers']})",
                          {"kind": "collective_sequence"}, rep)
    for ti, task in enumerate(tasks):
        res = task.pop("_res", None)
        if res is None or ti in starving_tasks:
            continue
        rep = {"task": task}
        if res["verdict"] is not None:
            ctx.violation(f"simulated ranks ended in {res['verdict']}: {res['errors']}", {"kind": "hang"}, rep)
        elif any(res["errors"].values()):
            ctx.violation(f"a rank raised: {res['errors']}", {"kind": "rank_exception"}, rep)
        if res["param_mismatch"]:
            ctx.violation(f"{task['kind']}: shard differs from the serial optimizer on the recovered sub-tensors: first at {res['param_mismatch'][0]} "
                          f"(shapes {task['shapes']}, S={task['S']})", {"kind": "shard_equivalence", "distributor": task["kind"]}, rep)
    return verdicts


def run(ctx):
    quick = ctx.tier == "quick"
    rng = random.Random(ctx.seed * 7919 + 7)
    p, o, n, k = (2, 3, 12, 4) if quick else (3, 3, 16, 4)
    res = tlc.run("FlatShardsMC", (tlc.SPEC_DIR / "FlatShardsMC.tla").read_text(), FS_CFG.format(p=p, o=o, n=n, k=k), tag="C07-mc", timeout=3000)
    ctx.add_tlc(res, f"FlatShardsMC params<={p} order<={o} numel<={n} shard ranks<={k}")
    if not res.ok:
        raise tlc.TLCMachineryError(f"FlatShards spec fails ExactlyOnceAcrossShards: {res.violated}\n{res.stdout[-1500:]}")
    mesh_mc(ctx, quick)
    for W, GS, owner, ns in [(2, 1, [0, 0, 0], 3), (2, 2, [0, 1, 0], 3)] + ([] if quick else [(4, 2, [0, 1, 0, 1], 2)]):
        r = C06.mc_dist(W, GS, owner, ns, (), ("SerialEquivalence", "ReplicaAgreement", "OwnerUnique"), ("NoRankLeftWaiting",))
        ctx.add_tlc(r, f"ShampooDist (one replicate column) R={W} GS={GS}")
        if not r.ok:
            raise tlc.TLCMachineryError(f"ShampooDist column model violates {r.violated}")
    tasks = attach_spec([make_task(rng, "fsdp") for _ in range(60 if quick else 600)] + [make_task(rng, "hsdp") for _ in range(40 if quick else 300)]
                        + [make_singleton_hsdp(rng) for _ in range(8 if quick else 60)] + [make_dup_fqn(rng) for _ in range(5 if quick else 30)])
    tasks = [t for t in tasks if usable(t)]
    results = sp.sim_map(dc.run_shard_task, tasks, lambda r: bool(r.get("crash") or r.get("verdict") or r.get("param_mismatch") or any((r.get("errors") or {}).values())))
    ctx.put("worlds_not_reproduced_on_rerun", sum(1 for r in results if r.get("_flaky_first_run")))
    evaluate(ctx, tasks, results, "C07")
    # real torch FSDP in the loop: its shard metadata must be the spec's flat-parameter model with 16-byte alignment
    fsdp_shapes = [sh for sh in SHAPES if all(len(x) > 0 for x in sh)]          # FSDP itself rejects 0-D parameters
    mtasks = attach_spec([{"shapes": rng.choice(fsdp_shapes), "S": rng.choice([1, 2, 3, 4]), "align": 4} for _ in range(16 if quick else 120)])
    for t, r in zip(mtasks, sp.pool_map(dc.fsdp_metadata_task, mtasks, fresh=True)):
        ctx.add("evaluations")
        if "crash" in r:
            raise tlc.TLCMachineryError("FSDP metadata worker crashed:\n" + r["crash"])
        if any(r["errors"].values()):
            ctx.note(f"real FSDP wrapping failed in the simulation (coverage reduced): {list(r['errors'].values())[0][:120]}")
            continue
        for k in range(t["S"]):
            got = r["ranks"][str(k)]
            want = [tuple(x) for x in t["shards"][k]]
            obs = [(m[0], m[1]) if m else None for m in got["meta"]]
            if obs != want:
                ctx.violation(f"compile_fsdp_parameter_metadata on real FSDP (shapes {t['shapes']}, {t['S']} ranks, rank {k}) gives {obs}, the "
                              f"flat-parameter model gives {want}", {"kind": "fsdp_metadata"}, {"task": t})
            for i, m in enumerate(got["meta"]):
                if m and (m[2] != list(t["shapes"][i]) or m[3] != math.prod(t["shapes"][i]) or m[4] != m[1] - m[0]):
                    ctx.violation(f"FSDP metadata of parameter {i} inconsistent with the parameter: {m}", {"kind": "fsdp_metadata"}, {"task": t})
            # with one rank torch FSDP switches to NO_SHARD, whose parameters are (correctly) classified as "other"
            if got["parts"] != ([0, 0, got["named"]] if t["S"] == 1 else [got["named"], 0, 0]):
                ctx.violation(f"parse_fsdp_params does not partition the FSDP parameters: {got['parts']} of {got['named']}", {"kind": "parse_fsdp_params"}, {"task": t})
    ctx.add("real_fsdp_metadata_runs", len(mtasks))
    hist = {}
    for t in tasks:
        key = f"{t['kind']} S={t['S']}" + (f" R={t['R']} GS={t['GS']} {t['comm']}" if t["kind"] == "hsdp" else "")
        hist[key] = hist.get(key, 0) + 1
    ctx.put("configurations_run", hist)
    ctx.put("distinct_nontrivial", sum(1 for t in tasks if any(len(pp) > 1 or (pp and pp[0]["len"] < __import__("math").prod(t["shapes"][i]))
                                                           for rank in t["pieces"] for i, pp in enumerate(rank))))
    ctx.put("rule", "MC: FlatShards x Recover for every shape list in bounds cut over 1..4 shard ranks: the recovered pieces of all shard ranks "
                    "partition every parameter (ExactlyOnceAcrossShards); ShampooDist for one replicate column; R: the spec's FlatShards / "
                    "ShardPieces (evaluated by TLC) define both the metadata given to the real FSDPDistributor / HSDPDistributor on simulated "
                    "ranks and the oracle: the serial optimizer on the recovered sub-tensors as independent parameters (communicated quantity "
                    "rounded for HSDP), compared bitwise after every step on every rank (mid-row cuts, empty shards, absent gradients, Shampoo "
                    "and SOAP); T: per-column gather logs validated by TLC; non-trivial = some shard holds a proper part of a parameter")
    if tasks:
        ctx.sample({"kind": tasks[0]["kind"], "shapes": tasks[0]["shapes"], "S": tasks[0]["S"], "shards": tasks[0]["shards"], "pieces_rank0": tasks[0]["pieces"][0]})
    ctx.assume("shard boundaries come from the spec's flat-parameter model (concatenate with optional 16-byte alignment, pad, cut evenly), which is checked against real torch FSDP(use_orig_params=True) metadata on simulated ranks")
    ctx.assume("ranks whose shard holds no element are excluded: the optimizer asserts at least one block per rank")


def replay(ctx, data):
    task = data["replay"]["task"]
    results = sp.pool_map(dc.run_shard_task, [task])
    evaluate(ctx, [task], results, "C07")
