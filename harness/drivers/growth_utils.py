"""Growth beyond the listed properties (called from drivers/GROWTH.py):
   * spec/Utils — compress_list, generate_pairwise_indices, get_dtype_size, check_diagonal as TLA+ operators; their laws are
     checked by TLC on every small input (spec/UtilsMC) and TLC is the oracle for the real functions on drawn cases;
   * spec/EnterExit — ParameterizeEnterExitContext under nesting and exceptions as a state machine: model checked, and EVERY
     terminal behaviour (every plan of raising calls) is replayed into the real class with call log and outcome compared."""
from __future__ import annotations

import json
import math

import torch

from harness import tlc

ORACLE = r"""
---- MODULE UtilsOracle ----
EXTENDS Utils, Json, IOUtils, TLC
Cases == JsonDeserialize(IOEnv.CASES)
F(c) == CASE c.kind = "compress" -> [r |-> Compress(c.xs, c.sel)]
          [] c.kind = "pairwise" -> [r |-> Pairwise(c.counts)]
          [] c.kind = "dtype" -> [r |-> DtypeSize(c.isbool, c.bits)]
          [] c.kind = "diag" -> [r |-> CheckDiagonal(c.shape, c.entries)]
          [] c.kind = "callsite" ->
               LET p == Pairwise(c.counts)
                   g == [k \in 1..PrefixSum(c.counts, Len(c.counts)) |->
                           c.present[CHOOSE i \in 1..Len(c.counts) : p[i][1] < k /\ k <= p[i][2]]]
               IN [r |-> [gsel |-> g, lsel |-> Compress(g, c.dsel).out,
                          idx |-> Compress([k \in 1..Len(g) |-> k], And(c.dsel, g)).out]]
ASSUME JsonSerialize(IOEnv.OUT, [i \in 1..Len(Cases) |-> F(Cases[i])])
====
"""
EE_CFG = """SPECIFICATION Spec
CONSTANTS Depth = {d}
INVARIANT TypeOK
INVARIANT ExitExactlyOnce
INVARIANT WellBracketed
INVARIANT NothingSwallowed
INVARIANT OutermostExitWins
PROPERTY Terminates
CHECK_DEADLOCK FALSE
"""
EE_EMIT = r"""
---- MODULE EnterExitEmit ----
EXTENDS EnterExit, Json, TLC
Emit == pc = "done" => PrintT(<<"BEH", ToJson([plan |-> plan, log |-> log, exc |-> exc])>>)
====
"""
# bits per element, from the dtype's definition (not from torch.finfo / iinfo, which the code under test uses)
DTYPE_BITS = {"bool": 1, "uint8": 8, "int8": 8, "int16": 16, "int32": 32, "int64": 64, "float16": 16, "bfloat16": 16,
              "float32": 32, "float64": 64, "float8_e4m3fn": 8, "float8_e5m2": 8, "uint16": 16, "uint32": 32, "uint64": 64}


def _draw_cases(rng, n):
    cases = []
    for _ in range(n):
        k = rng.choice((0, 0, 1, 2, 3, 5, 8, 13))
        m = k if rng.random() < 0.85 else max(0, k + rng.choice((-1, 1, 2)))
        cases.append({"kind": "compress", "xs": [rng.randrange(4) for _ in range(k)], "sel": [rng.random() < 0.5 for _ in range(m)]})
    for _ in range(n):
        k = rng.choice((0, 1, 1, 2, 3, 6, 10))
        cases.append({"kind": "pairwise", "counts": [rng.choice((0, 0, 1, 1, 2, 3, 7)) for _ in range(k)]})
    for name, bits in DTYPE_BITS.items():
        if hasattr(torch, name):
            cases.append({"kind": "dtype", "name": name, "isbool": name == "bool", "bits": bits})
    for _ in range(n):
        r = rng.random()
        if r < 0.15:
            shape = [rng.randrange(0, 4) for _ in range(rng.choice((0, 1, 3, 4)))]
            cases.append({"kind": "diag", "shape": shape, "entries": []})
        elif r < 0.3:
            a, b = rng.randrange(0, 4), rng.randrange(0, 4)
            if a == b:
                b += 1
            cases.append({"kind": "diag", "shape": [a, b], "entries": []})
        else:
            s = rng.choice((0, 1, 1, 2, 2, 3, 4, 6))
            p = rng.choice((0.0, 0.0, 0.05, 0.3))      # probability of an off-diagonal non-zero
            ent = [[(rng.choice(("nz", "nz", "nan")) if (i != j and rng.random() < p) else ("z" if i != j else rng.choice(("z", "nz", "nan"))))
                    for j in range(s)] for i in range(s)]
            cases.append({"kind": "diag", "shape": [s, s], "entries": ent, "dtype": rng.choice(("float32", "float64", "bfloat16", "float16"))})
    return cases


def _concrete_entry(rng, sym, dtype):
    if sym == "z":
        return rng.choice((0.0, -0.0))                  # a negative zero is a zero
    if sym == "nan":
        return rng.choice((float("nan"), float("inf"), float("-inf")))
    tiny = {"float32": 1e-45, "float64": 5e-324, "bfloat16": 1e-38, "float16": 6e-8}[dtype]   # (sub)normal minimum: still non-zero
    return rng.choice((1.0, -1.0, tiny, -tiny, 3.5, 1e30 if dtype in ("float32", "float64", "bfloat16") else 6e4))


def _real(case, rng):
    from distributed_shampoo.utils.shampoo_utils import compress_list, generate_pairwise_indices, get_dtype_size
    from matrix_functions import check_diagonal
    k = case["kind"]
    if k == "compress":
        outs = []
        for conv in (list, tuple):
            try:
                out = compress_list(conv(case["xs"]), conv(case["sel"]))
                assert isinstance(out, tuple), "compress_list must return a tuple"
                outs.append({"ok": True, "out": list(out)})
            except AssertionError as e:
                if "must return" in str(e):
                    raise
                outs.append({"ok": False, "out": []})
        return outs[0] if outs[0] == outs[1] else {"list_vs_tuple_disagree": outs}
    if k == "pairwise":
        return [list(p) for p in generate_pairwise_indices(case["counts"])]
    if k == "dtype":
        dt = getattr(torch, case["name"])
        got = get_dtype_size(dt)
        es = torch.empty((), dtype=dt).element_size()
        return got if got == es else {"get_dtype_size": got, "element_size": es}
    if k == "diag":
        shape = case["shape"]
        if case["entries"] or (len(shape) == 2 and shape[0] == shape[1]):
            dt = getattr(torch, case.get("dtype", "float32"))
            A = torch.tensor([[_concrete_entry(rng, s, case.get("dtype", "float32")) for s in row] for row in case["entries"]], dtype=torch.float64).reshape(shape).to(dt)
        else:
            A = torch.zeros(shape)
        try:
            v = check_diagonal(A)
            return {"outcome": "ok", "why": "", "value": bool(v)}
        except ValueError as e:
            why = "not 2-dimensional" if "not 2-dimensional" in str(e) else "not square" if "not square" in str(e) else str(e)
            return {"outcome": "reject", "why": why, "value": False}
    raise AssertionError(k)


def _callsite_cases(rng, n):
    """Parameter shapes + a history of gradient-presence masks + a distributor selector (as DDPDistributor installs one)."""
    worlds = []
    for _ in range(n):
        shapes = [rng.choice(([3], [5], [4, 3], [2, 2], [6], [1], [7, 2])) for _ in range(rng.choice((1, 2, 3, 4)))]
        thr = rng.choice((2, 3, 4))
        worlds.append({"shapes": shapes, "thr": thr, "sel_seed": rng.randrange(1 << 30),
                       "masks": [[rng.random() < 0.6 for _ in shapes] for _ in range(rng.choice((2, 3, 5)))]})
    return worlds


def _callsite_real(world):
    """Real Distributor.merge_and_block_gradients on the world; returns (counts, dsel, per-step observations)."""
    import random as _r
    from harness.adapter import Distributor, make_group
    from distributed_shampoo.utils.shampoo_utils import compress_list
    params = [torch.zeros(tuple(sh), dtype=torch.float64, requires_grad=True) for sh in world["shapes"]]
    dist = Distributor(make_group(params, world["thr"], False))
    counts = [int(x) for x in dist._global_num_blocks_per_param]
    glob = tuple(dist._global_blocked_params)
    r = _r.Random(world["sel_seed"])
    dsel = tuple(r.random() < 0.6 for _ in glob)
    # what DDPDistributor.__init__ does with its ownership selector (the shared step-time code below is the repository's)
    dist._distributor_selector = dsel
    dist._local_blocked_params = compress_list(glob, dsel)
    dist._previous_global_grad_selector = None
    obs = []
    for mask in world["masks"]:
        for p, m in zip(params, mask):
            p.grad = torch.ones_like(p) if m else None
        grads = dist.merge_and_block_gradients()
        lm = dist.local_masked_blocked_params
        obs.append({"gsel": [bool(x) for x in dist._global_grad_selector], "lsel": [bool(x) for x in dist._local_grad_selector],
                    "idx": [next((k + 1 for k, gb in enumerate(glob) if gb is t), 0) for t in lm],
                    "n_grads": len(grads), "grad_shapes_match": all(g.shape == t.shape for g, t in zip(grads, lm))})
    return counts, list(dsel), obs


def callsite_growth(ctx, quick, rng):
    worlds = _callsite_cases(rng, 40 if quick else 400)
    real = [_callsite_real(w) for w in worlds]
    cases, owner = [], []
    for wi, (w, (counts, dsel, obs)) in enumerate(zip(worlds, real)):
        for si, mask in enumerate(w["masks"]):
            cases.append({"kind": "callsite", "counts": counts, "present": mask, "dsel": dsel})
            owner.append((wi, si))
    expected, _ = tlc.oracle("UtilsOracle", ORACLE, cases, tag="GROWTH-callsite")
    for (wi, si), exp in zip(owner, expected):
        ctx.add("evaluations")
        ctx.add("utils_callsite_steps")
        o = real[wi][2][si]
        e = exp["r"]
        want = {"gsel": list(e["gsel"]), "lsel": list(e["lsel"]), "idx": list(e["idx"]), "n_grads": len(e["idx"]), "grad_shapes_match": True}
        if o != want:
            bad = [k for k in want if o[k] != want[k]]
            ctx.violation(f"Distributor.merge_and_block_gradients disagrees with spec/Utils (Pairwise / Compress / CompressCompose) on {worlds[wi]} step {si}: "
                          f"{bad[0]}: expected {want[bad[0]]}, observed {o[bad[0]]}", {"kind": "utils_callsite", "field": bad[0]}, {"callsite_world": worlds[wi]})


def dequantize_context_exception_path(ctx):
    """spec/EnterExit (Exit runs when Body raises; nothing swallowed) composed with spec/Quantized (Quantize writes the working copy
    back and drops it): a body that modifies the working copy and raises inside DequantizeQuantizedTensorListContext."""
    from distributed_shampoo.utils.shampoo_quantization import DequantizeQuantizedTensorListContext, QuantizedTensorList
    for qd, cd in ((torch.float32, torch.float32), (torch.float16, torch.float32), (torch.bfloat16, torch.float32), (torch.float32, torch.float64)):
        for nested in (False, True):
            store = tuple(torch.zeros(3, dtype=qd) for _ in range(2))
            qtl = QuantizedTensorList(tuple((t, None, None) for t in store), qd, cd)
            other = QuantizedTensorList(((torch.zeros(2, dtype=qd), None, None),), qd, cd)
            raised = None
            try:
                with DequantizeQuantizedTensorListContext(qtl):
                    if nested:
                        with DequantizeQuantizedTensorListContext(other):
                            other.dequantized_value[0].fill_(2.0)
                            qtl.dequantized_value[1].fill_(3.0)
                            raise KeyError("body")
                    qtl.dequantized_value[1].fill_(3.0)
                    raise KeyError("body")
            except KeyError as e:
                raised = e.args[0]
            ctx.add("evaluations")
            ctx.add("traces_validated_against_impl")
            obs = {"propagated": raised, "stored_after": qtl.is_dequantized_stored(), "written_back": [float(t[0]) for t in qtl.quantized_value],
                   "same_storage": all(a is b for a, b in zip(qtl.quantized_value, store)),
                   "inner": None if not nested else [other.is_dequantized_stored(), float(other.quantized_value[0][0])]}
            want = {"propagated": "body", "stored_after": False, "written_back": [0.0, 3.0], "same_storage": True,
                    "inner": None if not nested else [False, 2.0]}
            if obs != want:
                ctx.violation(f"DequantizeQuantizedTensorListContext with a raising body ({qd}->{cd}, nested={nested}) diverges from EnterExit o Quantized: "
                              f"expected {want}, observed {obs}", {"kind": "dequantize_ctx_exception"}, {"dequantize_ctx": True})


def run_plan(plan, depth):
    from distributed_shampoo.utils.shampoo_utils import ParameterizeEnterExitContext

    class Boom(Exception):
        pass
    log = []

    def mk(i):
        def enter(obj):
            obj.append(["enter", i])
            if plan["enter"][i - 1]:
                raise Boom(["enter", i])

        def exit_(obj):
            obj.append(["exit", i])
            if plan["exit"][i - 1]:
                raise Boom(["exit", i])
        return ParameterizeEnterExitContext(log, enter, exit_)

    def nest(i):
        if i > depth:
            if plan["body"]:
                raise Boom(["body", 0])
            return
        with mk(i) as c:
            assert isinstance(c, ParameterizeEnterExitContext), "__enter__ must return the context"
            nest(i + 1)
    try:
        nest(1)
        exc = ["none", 0]
    except Boom as e:
        exc = e.args[0]
    return log, exc


def utils_growth(ctx, quick, rng):
    utils = (tlc.SPEC_DIR / "Utils.tla").read_text()
    res = tlc.run("UtilsMC", (tlc.SPEC_DIR / "UtilsMC.tla").read_text(), "", tag="GROWTH-utilsmc", workers=1, timeout=600, allow_errors=True)
    if not res.ok or res.assumption_failed or '"UtilsMC laws hold"' not in res.stdout:
        raise tlc.TLCMachineryError(f"spec/Utils laws do not hold:\n{res.stdout[-1500:]}")
    # vacuity self-test: a Compress that ignores the selector must make the laws fail
    broken = utils.replace("(IF sel[i] THEN <<xs[i]>> ELSE <<>>)", "<<xs[i]>>")
    assert broken != utils
    wd_mod = (tlc.SPEC_DIR / "UtilsMC.tla").read_text()
    res2 = tlc.run("UtilsMC", wd_mod, "", tag="GROWTH-utilsmc-neg", workers=1, timeout=600, allow_errors=True, extra_files={"Utils.tla": broken})
    if not res2.assumption_failed:
        raise tlc.TLCMachineryError("vacuity self-test: UtilsMC accepted a Compress that ignores its selector")
    ctx.add("spec_law_modules_checked")
    cases = _draw_cases(rng, 60 if quick else 600)
    expected, _ = tlc.oracle("UtilsOracle", ORACLE, cases, tag="GROWTH-utils")
    assert len(expected) == len(cases)
    for case, exp in zip(cases, expected):
        ctx.add("evaluations")
        ctx.add("utils_" + case["kind"])
        try:
            got = _real(case, rng)
        except Exception as e:  # noqa: BLE001
            got = {"raised": f"{type(e).__name__}: {e}"}
        if got != exp["r"]:
            ctx.violation(f"{case['kind']} disagrees with spec/Utils on {json.dumps(case)[:300]}: expected {exp['r']}, observed {got}",
                          {"kind": "utils", "fn": case["kind"]}, {"utils_case": case})
    callsite_growth(ctx, quick, rng)
    dequantize_context_exception_path(ctx)
    # ParameterizeEnterExitContext
    ee = (tlc.SPEC_DIR / "EnterExit.tla").read_text()
    for d in ((1, 2) if quick else (1, 2, 3)):
        r = tlc.run("EnterExit", ee, EE_CFG.format(d=d), tag="GROWTH-ee", timeout=600)
        ctx.add_tlc(r, f"EnterExit Depth={d}")
        if not r.ok:
            raise tlc.TLCMachineryError(f"EnterExit spec violates {r.violated} {r.errors}\n{r.stdout[-1500:]}")
        em = tlc.run("EnterExitEmit", EE_EMIT, f"SPECIFICATION Spec\nCONSTANTS Depth = {d}\nINVARIANT Emit\nCHECK_DEADLOCK FALSE\n",
                     tag="GROWTH-ee-emit", workers=1, timeout=600)
        behs = [json.loads(json.loads(p[len('<<"BEH", '):-2].strip())) for p in em.printed if p.startswith('<<"BEH"')]
        if len(behs) != 2 ** (2 * d + 1):
            raise tlc.TLCMachineryError(f"EnterExit Depth={d}: expected {2 ** (2 * d + 1)} terminal behaviours, TLC printed {len(behs)}")
        for b in behs:
            ctx.add("evaluations")
            ctx.add("traces_validated_against_impl")
            log, exc = run_plan(b["plan"], d)
            if log != [list(x) for x in b["log"]] or exc != list(b["exc"]):
                ctx.violation(f"ParameterizeEnterExitContext diverges from spec/EnterExit on plan {b['plan']}: expected calls {b['log']} outcome {b['exc']}, "
                              f"observed calls {log} outcome {exc}", {"kind": "enter_exit"}, {"enter_exit": {"plan": b["plan"], "depth": d, "log": b["log"], "exc": b["exc"]}})


def replay(ctx, r):
    import random
    if "utils_case" in r:
        case = r["utils_case"]
        expected, _ = tlc.oracle("UtilsOracle", ORACLE, [case], tag="GROWTH-utils")
        got = _real(case, random.Random(0))
        ctx.add("evaluations")
        if got != expected[0]["r"]:
            ctx.violation(f"{case['kind']} disagrees with spec/Utils", {"kind": "utils", "fn": case["kind"]}, r)
        return True
    if "dequantize_ctx" in r:
        dequantize_context_exception_path(ctx)
        return True
    if "callsite_world" in r:
        class _One:
            def choice(self, _): raise AssertionError
        w = r["callsite_world"]
        counts, dsel, obs = _callsite_real(w)
        cases = [{"kind": "callsite", "counts": counts, "present": m, "dsel": dsel} for m in w["masks"]]
        expected, _ = tlc.oracle("UtilsOracle", ORACLE, cases, tag="GROWTH-callsite")
        for o, exp in zip(obs, expected):
            ctx.add("evaluations")
            e = exp["r"]
            if (o["gsel"], o["lsel"], o["idx"], o["n_grads"]) != (list(e["gsel"]), list(e["lsel"]), list(e["idx"]), len(e["idx"])) or not o["grad_shapes_match"]:
                ctx.violation("Distributor.merge_and_block_gradients disagrees with spec/Utils", {"kind": "utils_callsite"}, r)
        return True
    if "enter_exit" in r:
        e = r["enter_exit"]
        log, exc = run_plan(e["plan"], e["depth"])
        ctx.add("evaluations")
        if log != [list(x) for x in e["log"]] or exc != list(e["exc"]):
            ctx.violation("ParameterizeEnterExitContext diverges from spec/EnterExit", {"kind": "enter_exit"}, r)
        return True
    return False
