"""C15 — shard -> tensor-block recovery: fewest valid sub-tensors, as views; both copies agree.

MC : SplitRecoveryMC (Partition, ValidPiece, minimality by DP) exhaustive for numel <= N
O  : SplitRecovery.Expected evaluated by TLC vs. FSDPDistributor / HSDPDistributor._split_tensor_block_recovery
"""
from __future__ import annotations

import itertools
import random
from concurrent.futures import ThreadPoolExecutor

from harness import adapter, tlc

ORACLE = r"""
---- MODULE SplitRecoveryOracle ----
EXTENDS SplitRecovery, Json, IOUtils
Cases == JsonDeserialize(IOEnv.CASES)
ASSUME JsonSerialize(IOEnv.OUT, [i \in 1..Len(Cases) |-> Expected(Cases[i].shape, Cases[i].s, Cases[i].e)])
====
"""
MC_CFG = """SPECIFICATION Spec
CONSTANTS MaxOrder = {o}
 MaxNumel = {n}
INVARIANT InvPartition
INVARIANT InvMinimal
INVARIANT InvEmpty
CHECK_DEADLOCK FALSE
"""


def shapes_upto(max_order, max_numel):
    out = [[]]
    frontier = [[]]
    for _ in range(max_order):
        nxt = []
        for sh in frontier:
            n = 1
            for d in sh:
                n *= d
            for d in range(1, max_numel // n + 1):
                nxt.append(sh + [d])
        out += nxt
        frontier = nxt
    return out


def numel(shape):
    n = 1
    for d in shape:
        n *= d
    return n


def oracle_eval(cases, chunk=4000):
    chunks = [cases[i:i + chunk] for i in range(0, len(cases), chunk)]
    with ThreadPoolExecutor(max_workers=12) as ex:
        outs = list(ex.map(lambda c: tlc.oracle("SplitRecoveryOracle", ORACLE, c, tag="sr-o")[0], chunks))
    return [e for o in outs for e in o]


def norm_exp(exp):
    return [{"off": p["off"], "len": p["len"], "shp": list(p["shp"])} for p in (exp or [])]


def compare_case(ctx, case, exp):
    exp = norm_exp(exp)
    ok = True
    reals = {}
    for which in ("fsdp", "hsdp"):
        try:
            real = adapter.real_split_recovery(which, case["shape"], case["s"], case["e"], case.get("layout", "contig"))
        except Exception as ex:  # noqa: BLE001 -- every case is a flat shard with 0 <= s <= e <= numel: raising on it rejects a valid input
            ok = False
            ctx.violation(f"{which} split recovery raised {type(ex).__name__}: {ex} on the valid input {case} (expected {exp})",
                          {"kind": "split_recovery_oracle", "copy": which, "clause": "raised"}, {"case": case})
            continue
        reals[which] = real
        proj = [{"off": p["off"], "len": p["len"], "shp": p["shp"]} for p in real]
        if proj != exp:
            ok = False
            ctx.violation(f"{which} split recovery differs from spec on {case}: expected {exp}, observed {proj}",
                          {"kind": "split_recovery_oracle", "copy": which, "clause": "pieces"}, {"case": case})
        for p in real:
            if not (p["view"] and p["contiguous_values"] and p["write_through"]):
                ok = False
                ctx.violation(f"{which} split recovery piece is not a view of the shard / wrong content on {case}: {p}",
                              {"kind": "split_recovery_oracle", "copy": which, "clause": "view"}, {"case": case})
    return ok


def run(ctx):
    quick = ctx.tier == "quick"
    o, n = (4, 24) if quick else (5, 48)
    res = tlc.run("SplitRecoveryMC", (tlc.SPEC_DIR / "SplitRecoveryMC.tla").read_text(), MC_CFG.format(o=o, n=n),
                  tag="C15-mc", timeout=3000)
    ctx.add_tlc(res, f"SplitRecoveryMC order<={o} numel<={n}")
    if not res.ok:
        raise tlc.TLCMachineryError(f"SplitRecovery spec fails its declarative properties: {res.violated}\n{res.stdout[-2000:]}")
    on, oo = (16, 4) if quick else (30, 5)
    cases = []
    for sh in shapes_upto(oo, on):
        N = numel(sh)
        for s in range(N + 1):
            for e in range(s, N + 1):
                cases.append({"shape": sh, "s": s, "e": e})
    n_exh = len(cases)
    rng = random.Random(ctx.seed)
    for _ in range(400 if quick else 20000):
        order = rng.choice([1, 2, 2, 3, 3, 4, 5])
        sh = [rng.choice([1, 2, 3, 4, 5, 7, 8, 16, 33]) for _ in range(order)]
        N = numel(sh)
        if N > 10 ** 6:
            continue
        s = rng.randrange(0, N + 1)
        e = rng.randrange(s, N + 1)
        if rng.random() < 0.3 and N > 0:  # FSDP-like even cuts
            k = rng.choice([2, 3, 4, 8])
            r = rng.randrange(k)
            per = -(-N // k)
            s, e = min(N, r * per), min(N, (r + 1) * per)
        cases.append({"shape": sh, "s": s, "e": e})
    # shards that are windows of a larger flat buffer (non-zero storage offset: FSDP's per-parameter shards) or strided
    extra = []
    for i, c in enumerate(cases):
        if c["e"] > c["s"] and (i % (7 if quick else 3) == 0 or i >= n_exh):
            extra.append(dict(c, layout=("offset", "strided")[i % 2] if i < n_exh else rng.choice(["offset", "strided"])))
    cases += extra
    exp = oracle_eval([{k: c[k] for k in ("shape", "s", "e")} for c in cases])
    nontrivial = 0
    for c, e in zip(cases, exp):
        compare_case(ctx, c, e)
        ctx.add("evaluations")
        if len(e or []) >= 2:
            nontrivial += 1
    for which in ("fsdp", "hsdp"):
        rej = adapter.real_split_recovery_rejects_nonflat(which)
        for shp, outcome in rej.items():
            if outcome != "ValueError":
                ctx.violation(f"{which} split recovery did not reject non-flat shard {shp}: {outcome}",
                              {"kind": "split_recovery_oracle", "copy": which, "clause": "nonflat"}, {"case": None})
    ctx.put("distinct_nontrivial", nontrivial)
    ctx.put("traces_validated_against_impl", len(cases))
    ctx.put("exhaustive", True)
    ctx.put("rule", f"MC: every shape with order<={o}, numel<={n}, every 0<=s<=e<=numel (Partition, ValidPiece, minimality by DP); "
                    f"oracle: every shape with order<={oo}, numel<={on} and every (s,e) ({n_exh} triples) plus seeded random large "
                    f"shapes, both copies, compared piece by piece (offset, length, shape, view-of-shard, content, write-through), also for shards that "
                    f"are offset windows or strided slices of a larger buffer; "
                    f"non-trivial = at least two pieces")
    ctx.sample({"case": cases[n_exh // 2], "expected": norm_exp(exp[n_exh // 2])})
    ctx.sample({"case": cases[-1], "expected": norm_exp(exp[-1])})
    ctx.assume("TLC evaluator and JSON bridge trusted; integers stay below 2^31")


def replay(ctx, data):
    case = data["replay"]["case"]
    if case is None:
        return run(ctx)
    compare_case(ctx, case, oracle_eval([{k: case[k] for k in ("shape", "s", "e")}])[0])
    ctx.add("evaluations")
