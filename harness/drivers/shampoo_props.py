"""Shared machinery of the ShampooOpt-based property checks (C01, C02, C03, C04, C13, ...).

MC : exhaustive TLC runs of spec/ShampooOpt on small configurations (invariant NoViolation = every StepChecks clause)
     + deviation witnesses (the same configuration with a named deviation must FAIL: vacuity guard)
R  : TLC -simulate behaviours replayed into the real optimizer (bitwise frame checks, float64 reference driven by the
     spec's control decisions)
T  : the observed traces of those runs, and of long python-generated random histories, validated by TLC against
     spec/ShampooTrace (total successor comparison, mismatch names the field)
"""
from __future__ import annotations

import copy
import multiprocessing as mp
import random
import re

from harness import behaviours, family, realopt, replay, tlc

POOL = 14


def abstract_of(draw):
    """The specification's configuration of a draw: the block structure comes from shapes / max_preconditioner_dim / merging only,
    so it is read from an optimizer built WITHOUT the draw's input-like attributes (requires_grad flags).  If the draw itself cannot
    be constructed, the replay of its behaviours reports that (structure.construction_raised)."""
    plain = {k: v for k, v in draw.items() if k not in ("frozen0", "toggle_rg")}
    opt, _ = realopt.build(plain)
    return [realopt.abstract_group(opt, gi, g) for gi, g in enumerate(draw["groups"])]


_FS_READY = False


def _forkserver():
    """Fresh-process pools are served by a fork SERVER: a single-threaded process with torch and the harness preloaded, so a
    new worker never is a fork of this (multi-threaded) process - forking from the pool's handler threads deadlocked a worker
    pool once in ~130 runs (all workers waiting on an inherited lock)."""
    global _FS_READY
    ctx = mp.get_context("forkserver")
    if not _FS_READY:
        ctx.set_forkserver_preload(["torch", "harness.realopt", "harness.simdist", "harness.drivers.dist_common", "harness.replay"])
        _FS_READY = True
    return ctx


def pool_map(fn, tasks, fresh=False, timeout=3000):
    """fresh=True: every task in a new process (simulated-rank worlds must not inherit anything from a previous world)."""
    if not tasks:
        return []
    if fresh:
        ctx = _forkserver()
        pool = ctx.Pool(min(POOL, len(tasks)), maxtasksperchild=1)
        try:
            return pool.map_async(fn, tasks, chunksize=1).get(timeout=timeout)
        except mp.TimeoutError:
            raise tlc.TLCMachineryError(f"worker pool did not finish {len(tasks)} tasks of {fn.__name__} within {timeout}s")
        finally:
            pool.terminate()
            pool.join()
    ctx = mp.get_context("fork")
    with ctx.Pool(min(POOL, len(tasks))) as pool:
        try:
            return pool.map_async(fn, tasks, chunksize=max(1, len(tasks) // (POOL * 4))).get(timeout=timeout)
        except mp.TimeoutError:
            raise tlc.TLCMachineryError(f"worker pool did not finish {len(tasks)} tasks of {fn.__name__} within {timeout}s")


def sim_map(fn, tasks, is_bad):
    """Simulated-rank tasks: fresh process per world; a world that reports a problem is executed a second time in another fresh
    process and the problem is kept only if it shows again (real violations are deterministic functions of the task; thread-level
    artefacts of the simulation are not)."""
    res = pool_map(fn, tasks, fresh=True)
    again = [i for i, r in enumerate(res) if is_bad(r)]
    if again:
        res2 = pool_map(fn, [tasks[i] for i in again], fresh=True)
        for i, r2 in zip(again, res2):
            if not is_bad(r2):
                res[i] = dict(r2, _flaky_first_run=True)
    return res


def run_mc(ctx, configs, witnesses):
    """configs: [(name, cfg_groups, maxcalls, faults, moves)]; witnesses: [(name, cfg_groups, maxcalls, faults, moves, dev)]"""
    for name, cfg_groups, maxcalls, faults, moves in configs:
        res = behaviours.check(cfg_groups, maxcalls, faults, moves, dev=(), tag=f"{ctx.prop}-mc")
        ctx.add_tlc(res, name)
        if not res.ok:
            raise tlc.TLCMachineryError(f"{name}: the repaired specification violates its own invariants {res.violated} {res.errors}\n"
                                        + "\n".join(res.trace)[-3000:])
    wit = []
    for name, cfg_groups, maxcalls, faults, moves, dev in witnesses:
        res = behaviours.check(cfg_groups, maxcalls, faults, moves, dev=dev, tag=f"{ctx.prop}-wit")
        if "NoViolation" not in res.violated:
            raise tlc.TLCMachineryError(f"vacuity: deviation {dev} does not violate the invariants in {name}")
        wit.append({"name": name, "deviation": list(dev), "counterexample_states": len(res.trace)})
    ctx.put("deviation_witnesses", wit)


def gen_tasks(ctx, rng, n_cfg, n_beh, make_groups, maxcalls, faults, hyper_keys, per_beh_redraw=True, numeric=True, ckpt=False):
    """Returns [(draw, behaviour, opts)] : TLC-generated behaviours paired with concrete draws."""
    from concurrent.futures import ThreadPoolExecutor
    draws = []
    for _ in range(n_cfg):
        gs = make_groups(rng)
        draws.append(family.make_draw(rng, gs))
    abstracts = [abstract_of(d) for d in draws]
    # TLC's simulator picks uniformly among successor states: with every hyper move enabled most actions would be SetHyper.
    # Each configuration gets a handful of moves (scheduler moves over all groups preferred), so that steps dominate.
    move_sets = []
    for d in draws:
        mv = family.hyper_moves(d["groups"], hyper_keys) if hyper_keys else []
        allg = [m for m in mv if m[0] == 0]
        pick = rng.sample(allg, min(len(allg), 2)) + rng.sample(mv, min(len(mv), 4))
        move_sets.append(sorted(set(pick)))

    def sim(i):
        behs, res = behaviours.simulate(abstracts[i], maxcalls, max(3, n_beh), ctx.seed * 1000 + i, faults=faults,
                                        moves=move_sets[i], tag=f"{ctx.prop}-sim", ckpt=ckpt)
        sims.append(res)
        return behs
    sims = []
    with ThreadPoolExecutor(max_workers=12) as ex:
        all_behs = list(ex.map(sim, range(n_cfg)))
    if sims:          # TLC's own counts for the behaviour generation (simulation mode: states generated along the sampled behaviours)
        ctx.add("states", sum(r.distinct for r in sims))
        ctx.add("transitions", sum(r.generated for r in sims))
        ctx.coverage.setdefault("tlc_runs", []).append({"name": f"ShampooOpt -simulate, {len(sims)} configurations x >= {n_beh} behaviours of {maxcalls} actions"
                                                        + (" (Save/Load enabled)" if ckpt else ""),
                                                        "distinct": sum(r.distinct for r in sims), "generated": sum(r.generated for r in sims),
                                                        "depth": maxcalls, "wall_s": round(sum(r.wall_s for r in sims), 2)})
    tasks = []
    for d, behs in zip(draws, all_behs):
        rng.shuffle(behs)
        for beh in behs[:n_beh]:
            dd = copy.deepcopy(d)
            if per_beh_redraw:
                dd["groups"] = [family.redraw_numeric(rng, g) for g in dd["groups"]]
                dd["seed"] = rng.randrange(1 << 30)
                for g2 in dd["groups"][1:]:
                    if g2.get("shared_hyper"):          # groups that share one learning-rate / weight-decay table keep sharing it
                        g2["lr"], g2["wd"] = list(dd["groups"][0]["lr"]), list(dd["groups"][0]["wd"])
            if per_beh_redraw:
                family.draw_grad_mode(rng, dd)
                family.draw_frozen(rng, dd)
            family.draw_scales(rng, dd)
            tasks.append((dd, beh, {"numeric": numeric}))
    return tasks


def exhaustive_tasks(ctx, rng, groups, depth, faults, hyper_keys, numeric=True, redraws=1):
    """Bounded-exhaustive conformance: EVERY behaviour of `depth` actions of the draw's abstract configuration."""
    d = family.make_draw(rng, groups)
    ab = abstract_of(d)
    moves = family.hyper_moves(d["groups"], hyper_keys) if hyper_keys else []
    behs, res = behaviours.enumerate_all(ab, depth, faults=faults, moves=moves, tag=f"{ctx.prop}-enum")
    ctx.add("bounded_exhaustive_behaviours", len(behs))
    tasks = []
    for beh in behs:
        dd = copy.deepcopy(d)
        if redraws:
            dd["groups"] = [family.redraw_numeric(rng, g) for g in dd["groups"]]
            dd["seed"] = rng.randrange(1 << 30)
        family.draw_scales(rng, dd)
        tasks.append((dd, beh, {"numeric": numeric}))
    return tasks


def random_history(rng, draw, abstract, n_steps, faults=("fail",), hyper_keys=("mom", "b1", "wd", "lr"), flip=0.5):
    """Inputs only (engine T): python-side random driver with persistent masks, occasional hyper changes and faults."""
    events = []
    moves = family.hyper_moves(draw["groups"], hyper_keys) if hyper_keys else []
    masks = [[True] * len(g["shapes"]) for g in draw["groups"]]
    for _ in range(n_steps):
        if moves and rng.random() < 0.15:
            gi, key, v = rng.choice(moves)
            for g1 in ([gi] if gi else range(1, len(draw["groups"]) + 1)):          # group 0 = every group at once (a scheduler)
                events.append({"ev": "SetHyper", "g": g1, "key": key, "v": v})
        if rng.random() < flip:
            for _ in range(1 if flip <= 0.5 else rng.choice([1, 2, 3])):
                gi = rng.randrange(len(masks))
                pi = rng.randrange(len(masks[gi]))
                masks[gi][pi] = not masks[gi][pi]
        outc = []
        for ab in abstract:
            go = []
            for b, n in enumerate(ab["nf"]):
                f = ["ok"] * n
                if faults and n and rng.random() < 0.25:
                    f[rng.randrange(n)] = rng.choice(list(faults))
                go.append({"inf": False, "f": f})
            outc.append(go)
        events.append({"ev": "Step", "present": copy.deepcopy(masks), "outc": outc})
    return events


def history_task(args):
    import logging
    import torch
    logging.disable(logging.WARNING)
    torch.set_num_threads(1)
    draw, events = args
    try:
        try:
            r = replay.Runner(draw, numeric=False)
        except Exception as ex:  # noqa - a valid configuration must construct
            return [(0, "structure.construction_raised", "the optimizer constructs for this configuration", f"{type(ex).__name__}: {str(ex)[:160]}")], None, None
        mm = []
        if events and [len(go) for go in next(e for e in events if e["ev"] == "Step")["outc"]] != [len(m) for m in r.meta]:
            return [(0, "structure.blocks_per_group", [len(go) for go in next(e for e in events if e["ev"] == "Step")["outc"]],
                     [len(m) for m in r.meta])], None, None
        for i, ev in enumerate(events):
            if ev["ev"] == "SetHyper":
                r.do_sethyper(ev)
            else:
                m = r.do_step(ev["present"], ev["outc"])
                mm += [(i + 1,) + tuple(x) for x in m]
                # after a raise of NaN/Inf kind or a crash nothing sensible continues (the spec stops as well)
                last = r.trace[-1]["obs"]
                if any(o.get("raised") in ("value", "len") for o in last if o.get("reached")) or r.params_overflowed():
                    break
        return mm, {"cfg": r.abstract, "events": r.trace}, None
    except Exception:
        import traceback
        return [], None, traceback.format_exc()


def collect(ctx, tasks, results, validated, owns, kind, control=None):
    """Turn python-side mismatches and TLC rejections into violations of this property (if the clause is owned)."""
    other = 0
    owns0 = owns
    owns = lambda clause, p=None: clause.startswith("structure.") or owns0(clause, p)      # noqa: E731 - a wrong block structure concerns every property
    for (draw, beh, _), (mm, tr, err), val in zip(tasks, results, validated):
        if err:
            raise tlc.TLCMachineryError(f"replay worker crashed:\n{err}")
        ctx.add("evaluations")
        probs = []
        for m in mm:
            probs.append({"at": m[0], "clause": m[1], "expected": m[2], "observed": m[3], "by": "harness"})
        if val is not None:
            for m in val["mism"]:
                probs.append({"at": m[0], "clause": f"g{m[1]}.trace.{m[2]}", "expected": m[3], "observed": m[4], "by": "TLC"})
            for b in val["bad"]:
                probs.append({"at": b[0], "clause": f"g{b[1]}.spec.{b[2]}", "expected": "clause holds", "observed": "violated", "by": "TLC"})
        # attribution by the FIRST divergence of the run (later mismatches are consequences of it)
        if probs:
            at0 = min(p["at"] for p in probs)
            firsts = [p for p in probs if p["at"] == at0]
            structural = [p for p in firsts if ".value." not in p["clause"] and ".changed_on_raise." not in p["clause"]]
            firsts = structural or firsts      # at the same action, control-flow divergences are causes, numbers consequences
            if not any(owns(p["clause"], p) for p in firsts):
                other += len(probs)
                continue
        mine = [p for p in probs if owns(p["clause"], p)]
        if control is not None:
            mine = control(draw, beh, mine)
        other += len(probs) - len(mine)
        if mine:
            first = min(mine, key=lambda p: p["at"])
            ctx.violation(f"{kind}: {first['clause']} at action {first['at']}: expected {first['expected']}, observed {first['observed']} "
                          f"(decided by {first['by']}; {len(mine)} mismatching fields in this run)",
                          {"kind": kind, "clause": re.sub(r"^g\d+\.", "", first["clause"]).split(".b")[0]},
                          {"draw": draw, "behaviour": beh, "mismatches": mine[:10]})
    if other:
        ctx.add("mismatches_owned_by_other_properties", other)


def run_rt(ctx, tasks, owns, kind, control=None):
    results = pool_map(replay.replay_task, tasks)
    traces = [tr for (_, tr, err) in results]
    idx = [i for i, tr in enumerate(traces) if tr is not None]
    vals = behaviours.validate([traces[i] for i in idx]) if idx else []
    validated = [None] * len(tasks)
    for i, v in zip(idx, vals):
        validated[i] = v
    collect(ctx, tasks, results, validated, owns, kind, control)
    ctx.add("traces_validated_against_impl", len(idx))
    return results, validated


def run_histories(ctx, rng, n, make_groups, n_steps, faults, hyper_keys, owns, kind, flip=0.5):
    tasks = []
    for _ in range(n):
        d = family.make_draw(rng, make_groups(rng))
        ab = abstract_of(d)
        tasks.append((d, random_history(rng, d, ab, n_steps, faults, hyper_keys, flip)))
    results = pool_map(history_task, tasks)
    traces = [tr for (_, tr, err) in results]
    idx = [i for i, tr in enumerate(traces) if tr is not None]
    vals = behaviours.validate([traces[i] for i in idx]) if idx else []
    validated = [None] * len(tasks)
    for i, v in zip(idx, vals):
        validated[i] = v
    collect(ctx, [(d, ev, None) for d, ev in tasks], results, validated, owns, kind)
    ctx.add("traces_validated_against_impl", len(idx))
    ctx.add("long_histories", len(tasks))


def nontrivial_count(tasks):
    """Distinct behaviours with at least one mask change, refresh or fault."""
    seen = set()
    for _, beh, _ in tasks:
        steps = [e for e in beh if e["ev"] == "Step"]
        masks = [repr(e["present"]) for e in steps]
        interesting = len(set(masks)) > 1 or any(o.get("refresh") for e in steps for o in e.get("obs", []) if o.get("reached")) \
            or any(f != "ok" for e in steps for go in e["outc"] for oc in go for f in oc["f"])
        if interesting:
            seen.add(repr([(e["ev"], e.get("present"), e.get("outc"), e.get("key"), e.get("v")) for e in beh]))
    return len(seen)


def replay_file(ctx, data, owns, kind):
    r = data["replay"]
    tasks = [(r["draw"], r["behaviour"], {"numeric": True})]
    # the stored behaviour carries the spec's expected observations when it came from TLC; re-derive them otherwise
    if not any("obs" in e and e["obs"] and "stepped" in (e["obs"][0] or {}) for e in r["behaviour"] if e["ev"] == "Step"):
        ab = abstract_of(r["draw"])
        val = behaviours.validate([{"cfg": ab, "events": behaviours.inputs_only(r["behaviour"])}])[0]
        beh = []
        it = iter(val["exp"])
        for e in r["behaviour"]:
            x = next(it)
            beh.append(dict(e, obs=x.get("obs")) if e["ev"] == "Step" else e)
        tasks = [(r["draw"], beh, {"numeric": True})]
    run_rt(ctx, tasks, owns, kind)


def run_repo_tests(ctx, owns, kind, tests=("distributed_shampoo/tests/distributed_shampoo_test.py", "distributed_shampoo/gpu_tests")):
    """Engine T, source (iii): the repository's own tests run under harness.pytest_trace; every DistributedShampoo instance they
    create and step is validated by TLC against the specification (the CCF lesson: tests exercise more than they assert)."""
    import json
    import os
    import subprocess
    import tempfile
    from harness import common
    with tempfile.TemporaryDirectory(dir="/var/tmp") as d:
        out = os.path.join(d, "traces.json")
        env = dict(os.environ, VERIF_TRACE_OUT=out, PYTHONPATH=f"{common.VERIF}:{common.REPO}")
        p = subprocess.run(["/venv/bin/python", "-m", "pytest", "-q", "-p", "no:cacheprovider", "-p", "harness.pytest_trace", "--timeout=900",
                            "--continue-on-collection-errors", *tests], cwd=str(common.REPO), env=env, capture_output=True, text=True)
        if not os.path.exists(out):
            ctx.note("pytest trace plugin produced no output (coverage reduced): " + p.stdout[-300:])
            return
        data = json.load(open(out))
    traces = data["traces"]
    vals = behaviours.validate(traces) if traces else []
    n_steps = 0
    for tr, val in zip(traces, vals):
        n_steps += sum(1 for e in tr["events"] if e["ev"] == "Step")
        probs = [{"at": m[0], "clause": f"g{m[1]}.trace.{m[2]}", "expected": m[3], "observed": m[4]} for m in val["mism"]]
        probs += [{"at": b[0], "clause": f"g{b[1]}.spec.{b[2]}", "expected": "clause holds", "observed": "violated"} for b in val["bad"]]
        if not probs:
            continue
        at0 = min(p["at"] for p in probs)
        firsts = [p for p in probs if p["at"] == at0]
        mine = [p for p in firsts if owns(p["clause"], p)]
        if mine:
            ctx.violation(f"{kind}: trace recorded from the repository's own tests rejected by the specification: {mine[0]['clause']} at event "
                          f"{mine[0]['at']}: expected {mine[0]['expected']}, observed {mine[0]['observed']}",
                          {"kind": kind, "clause": mine[0]["clause"].split(".", 1)[1]}, {"repo_test_trace": tr, "mismatches": probs[:10]})
    ctx.add("traces_validated_against_impl", len(traces))
    ctx.put("repo_test_suite_traces", {"optimizer_instances": data["instances"], "validated": len(traces), "steps": n_steps,
                                        "skipped": len(data["skipped"]), "skip_reasons": sorted(set(data["skipped"]))})
