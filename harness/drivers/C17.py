"""C17 — the constructor accepts exactly the documented hyperparameter domain.

MC : CtorMC (table sanity: baseline accepted, resolved values in range, ValueError priority) over one/two-at-a-time variations
O  : Ctor.Outcome / Ctor.Resolved evaluated by TLC vs. the real constructor (exception class, resolved defaults, group inheritance)
"""
from __future__ import annotations

import itertools
import random
from concurrent.futures import ThreadPoolExecutor
from dataclasses import dataclass

import torch

from harness import tlc

ORACLE = r"""
---- MODULE CtorOracle ----
EXTENDS Ctor, Json, IOUtils
Cases == JsonDeserialize(IOEnv.CASES)
Fix(c) == [c EXCEPT !.ignored = IF c.nignored = 0 THEN <<>> ELSE c.ignored,
                    !.override = IF c.override.k # "int" /\ c.noverride = 0 THEN [k |-> c.override.k, v |-> <<>>] ELSE c.override]
ASSUME JsonSerialize(IOEnv.OUT, [i \in 1..Len(Cases) |-> [outcome |-> Outcome(Fix(Cases[i])), resolved |-> Resolved(Fix(Cases[i]))]])
====
"""
MC_CFG = """SPECIFICATION Spec
CONSTANTS MaxChanged = {m}
INVARIANT InvResolved
INVARIANT InvBaseline
INVARIANT InvOutcomeDomain
INVARIANT InvPriority
CHECK_DEADLOCK FALSE
"""


def R(n, d):
    return {"k": "rat", "n": n, "d": d}


NAN, PINF, NINF = {"k": "nan"}, {"k": "inf"}, {"k": "ninf"}
FLOAT_GRID = [R(-1, 10), R(0, 1), R(1, 100), R(1, 2), R(9, 10), R(1, 1), R(11, 10), R(-1, 1), R(-2, 1), NAN, PINF, NINF]
INT_GRID = [-2, -1, 0, 1, 2, 5, 1024]
OVERRIDES = [{"k": "int", "v": -1}, {"k": "int", "v": 0}, {"k": "int", "v": 2}, {"k": "list", "v": []},
             {"k": "list", "v": [0, 0]}, {"k": "list", "v": [2, -1]}, {"k": "list", "v": [1, 2, 3]},
             # the documented type is int | Sequence[int]: tuples and ranges are sequences as well
             {"k": "tuple", "v": [2, -1]}, {"k": "tuple", "v": [-1, 2]}, {"k": "tuple", "v": [1, 2]}, {"k": "tuple", "v": []},
             {"k": "range", "v": [-1, 0, 1]}, {"k": "range", "v": [0, 1, 2]}]
IGNOREDS = [[], [0], [0, 0], [0, 1]]
GRAFTS = [{"type": t, "eps": e, "beta2": b}
          for t in ("none", "sgd", "adagrad", "rmsprop", "adam", "unknown")
          for e in (R(-1, 1), R(0, 1), R(1, 1000000), NAN)
          for b in (R(0, 1), R(1, 2), R(1, 1), R(11, 10), NAN)]
FLOAT_FIELDS = ["lr", "beta1", "beta2", "beta3", "eps", "momentum", "dampening", "wd"]
INT_FIELDS = ["maxdim", "freq", "start", "tol"]
BASELINES = [
    dict(lr=R(1, 100), beta1=R(9, 10), beta2=R(1, 1), beta3=R(-1, 1), eps=R(1, 1000000), momentum=R(0, 1), dampening=R(0, 1),
         wd=R(0, 1), maxdim=1024, freq=1, start=-1, override={"k": "int", "v": 0}, ignored=[], tol=3,
         graft={"type": "none", "eps": R(1, 1000000), "beta2": R(1, 1)}, pc="shampoo", dc="none", nesterov=False, bias_corr=True, decoupled=True),
    dict(lr=R(1, 100), beta1=R(9, 10), beta2=R(9, 10), beta3=R(1, 2), eps=R(1, 1000000), momentum=R(1, 2), dampening=R(1, 2),
         wd=R(1, 100), maxdim=2, freq=5, start=5, override={"k": "int", "v": 2}, ignored=[], tol=0,
         graft={"type": "adam", "eps": R(1, 1000000), "beta2": R(1, 2)}, pc="soap", dc="none", nesterov=True, bias_corr=True, decoupled=False),
    dict(lr=R(0, 1), beta1=R(0, 1), beta2=R(1, 2), beta3=R(0, 1), eps=R(1, 1), momentum=R(0, 1), dampening=R(9, 10),
         wd=R(1, 1), maxdim=1, freq=2, start=5, override={"k": "int", "v": 0}, ignored=[0], tol=1,
         graft={"type": "adagrad", "eps": R(1, 1), "beta2": R(1, 1)}, pc="shampoo", dc="none", nesterov=False, bias_corr=False, decoupled=True),
]


def domain(f):
    if f in FLOAT_FIELDS:
        return FLOAT_GRID
    if f in INT_FIELDS:
        return INT_GRID
    if f in BOOL_FIELDS:
        return [False, True]
    return {"override": OVERRIDES, "ignored": IGNOREDS, "graft": GRAFTS, "pc": ["shampoo", "soap", "unknown"],
            "dc": ["none", "unknown"]}[f]


BOOL_FIELDS = ["nesterov", "bias_corr", "decoupled"]       # no documented restriction: Ctor!ValueOK does not mention them
FIELDS = FLOAT_FIELDS + INT_FIELDS + ["override", "ignored", "graft", "pc", "dc"] + BOOL_FIELDS


def random_kway(rng, base, count, ks=(3, 4, 5)):
    """k fields off the baseline at once (interactions of three and more hyperparameters); valid values are preferred so that a
    combination INSIDE the documented domain is reached often (a check that wrongly couples valid values only shows there)."""
    out = []
    for _ in range(count):
        fs = tuple(rng.sample(FIELDS, rng.choice(ks)))
        h = dict(base)
        for f in fs:
            dom = domain(f)
            if f in FLOAT_FIELDS and rng.random() < 0.7:
                dom = [R(1, 2), R(1, 100), R(9, 10)] + ([R(0, 1)] if f != "eps" else [])
            elif f in INT_FIELDS and rng.random() < 0.7:
                dom = [1, 2, 5]
            h[f] = rng.choice(dom)
        if "freq" in fs and "start" not in fs and h["start"] != -1:
            h["start"] = max(h["start"], h["freq"])
        out.append((h, fs))
    return out


def variations(base, k):
    for fs in itertools.combinations(FIELDS, k):
        for vs in itertools.product(*[domain(f) for f in fs]):
            if any(v == base[f] for f, v in zip(fs, vs)):
                continue
            h = dict(base)
            for f, v in zip(fs, vs):
                h[f] = v
            yield h, fs


def to_float(a):
    return {"nan": float("nan"), "inf": float("inf"), "ninf": float("-inf")}.get(a["k"]) if a["k"] != "rat" else a["n"] / a["d"]


def wire(h):
    c = dict(h)
    c["nignored"] = len(h["ignored"])
    c["noverride"] = len(h["override"]["v"]) if h["override"]["k"] != "int" else 0
    return c


def construct(h, two_groups=False):
    """Build configs + optimizer from the abstract record; returns ('ok', optimizer) or (exception class name, None)."""
    from distributed_shampoo.distributed_shampoo import DistributedShampoo
    from distributed_shampoo import shampoo_types as st
    from matrix_functions_types import DefaultEigenConfig

    @dataclass
    class WeirdGraft(st.GraftingConfig):
        pass

    @dataclass(kw_only=True)
    class WeirdPC(st.ShampooPreconditionerConfig):
        pass

    @dataclass
    class WeirdDC(st.DistributedConfig):
        pass

    try:
        g = h["graft"]
        graft = {"none": lambda: None, "sgd": st.SGDGraftingConfig,
                 "adagrad": lambda: st.AdaGradGraftingConfig(epsilon=to_float(g["eps"])),
                 "rmsprop": lambda: st.RMSpropGraftingConfig(beta2=to_float(g["beta2"]), epsilon=to_float(g["eps"])),
                 "adam": lambda: st.AdamGraftingConfig(beta2=to_float(g["beta2"]), epsilon=to_float(g["eps"])),
                 "unknown": WeirdGraft}[g["type"]]()
        pc_cls = {"shampoo": st.ShampooPreconditionerConfig, "soap": st.EigenvalueCorrectedShampooPreconditionerConfig,
                  "unknown": WeirdPC}[h["pc"]]
        pc = pc_cls(num_tolerated_failed_amortized_computations=h["tol"], ignored_dims=list(h["ignored"]))
        dc = None if h["dc"] == "none" else WeirdDC()
        okind, ovals = h["override"]["k"], h["override"]["v"]
        ov = ovals if okind == "int" else tuple(ovals) if okind == "tuple" else list(ovals) if okind == "list" else \
            (range(ovals[0], ovals[-1] + 1) if ovals else range(0))
        p1 = torch.nn.Parameter(torch.zeros(3, 2))
        params = [p1]
        if two_groups:
            p2 = torch.nn.Parameter(torch.zeros(2))
            params = [{"params": [p1]}, {"params": [p2], "lr": 0.5}]
        opt = DistributedShampoo(
            params, lr=to_float(h["lr"]), betas=(to_float(h["beta1"]), to_float(h["beta2"])), beta3=to_float(h["beta3"]),
            epsilon=to_float(h["eps"]), momentum=to_float(h["momentum"]), dampening=to_float(h["dampening"]),
            weight_decay=to_float(h["wd"]), max_preconditioner_dim=h["maxdim"], precondition_frequency=h["freq"],
            start_preconditioning_step=h["start"], inv_root_override=ov, grafting_config=graft,
            use_nesterov=h.get("nesterov", False), use_bias_correction=h.get("bias_corr", True),
            use_decoupled_weight_decay=h.get("decoupled", True),
            preconditioner_config=pc, distributed_config=dc)
        return "ok", opt
    except NotImplementedError:
        return "NotImplementedError", None
    except ValueError:
        return "ValueError", None
    except Exception as ex:  # any other class is a disagreement by construction
        return type(ex).__name__, None


def oracle_eval(cases, chunk=3000):
    chunks = [cases[i:i + chunk] for i in range(0, len(cases), chunk)]
    with ThreadPoolExecutor(max_workers=12) as ex:
        outs = list(ex.map(lambda c: tlc.oracle("CtorOracle", ORACLE, [wire(x) for x in c], tag="ct-o")[0], chunks))
    return [e for o in outs for e in o]


def compare_case(ctx, h, exp, two_groups=False):
    out, opt = construct(h, two_groups)
    if out != exp["outcome"]:
        ctx.violation(f"constructor outcome differs from Ctor spec on {h}: expected {exp['outcome']}, observed {out}",
                      {"kind": "ctor_oracle", "clause": "outcome", "expected": exp["outcome"], "observed": out}, {"h": h, "two": two_groups})
        return False
    if out == "ok":
        rb3 = to_float(exp["resolved"]["beta3"])
        rst = exp["resolved"]["start"]
        for gi, g in enumerate(opt.param_groups):
            if g["beta3"] != rb3 or g["start_preconditioning_step"] != rst:
                ctx.violation(f"resolved defaults differ on {h} (group {gi}): expected beta3={rb3} start={rst}, observed "
                              f"beta3={g['beta3']} start={g['start_preconditioning_step']}",
                              {"kind": "ctor_oracle", "clause": "resolved"}, {"h": h, "two": two_groups})
                return False
    return True


def run(ctx):
    quick = ctx.tier == "quick"
    res = tlc.run("CtorMC", (tlc.SPEC_DIR / "CtorMC.tla").read_text(), MC_CFG.format(m=2), tag="C17-mc", timeout=1500)
    ctx.add_tlc(res, "CtorMC one/two-at-a-time around baseline 1")
    if not res.ok:
        raise tlc.TLCMachineryError(f"Ctor table fails its sanity invariants: {res.violated}\n{res.stdout[-2000:]}")
    rng = random.Random(ctx.seed)
    cases = []
    for bi, base in enumerate(BASELINES):
        cases.append((dict(base), ()))
        cases += list(variations(base, 1))
        pairs = list(variations(base, 2))
        if quick:
            pairs = rng.sample(pairs, 1200 if bi == 0 else 400)
        elif bi > 0:
            pairs = rng.sample(pairs, 6000)
        cases += pairs
        cases += random_kway(rng, base, 500 if quick else 8000)
    exps = oracle_eval([h for h, _ in cases])
    seen_out = {}
    nontrivial = 0
    for i, ((h, fs), e) in enumerate(zip(cases, exps)):
        compare_case(ctx, h, e, two_groups=(i % 3 == 0))
        ctx.add("evaluations")
        seen_out[e["outcome"]] = seen_out.get(e["outcome"], 0) + 1
        if len(fs) >= 1:
            nontrivial += 1
    ctx.put("distinct_nontrivial", nontrivial)
    ctx.put("outcome_histogram", seen_out)
    ctx.put("traces_validated_against_impl", len(cases))
    ctx.put("exhaustive", not quick)
    ctx.put("rule", "3 valid baselines; every hyperparameter varied one at a time over its boundary/interior/outside/NaN/inf grid "
                    "(exhaustive) and two at a time (exhaustive for baseline 1 in the thorough tier, seeded sample otherwise); the "
                    "spec's Outcome/Resolved (evaluated by TLC) must equal the real constructor's exception class / resolved "
                    "beta3 and start step, also for a second param group that leaves them unset; seeded 3-5-way combinations biased to valid values "
                    "(incl. the boolean flags, and the override as list / tuple / range); non-trivial = at least one field off baseline")
    ctx.sample({"h": cases[1][0], "expected": exps[1]})
    ctx.sample({"h": cases[-1][0], "changed": list(cases[-1][1]), "expected": exps[-1]})
    ctx.assume("unsupported config types are represented by ad-hoc subclasses defined in the harness")


def replay(ctx, data):
    h = data["replay"]["h"]
    compare_case(ctx, h, oracle_eval([h])[0], data["replay"].get("two", False))
    ctx.add("evaluations")
