"""C05 — blocks tile each parameter exactly; blocking does not change the math.

MC : BlockingMC (declarative tiling properties on the transcription, exhaustive within bounds)
O  : Blocking.Expected evaluated by TLC on the same cases (+ random large) vs. the real Distributor
R  : blocked-vs-presplit metamorphic runs of the real optimizer (invariance part)
"""
from __future__ import annotations

import itertools
import random
from concurrent.futures import ThreadPoolExecutor

from harness import adapter, tlc

ORACLE = r"""
---- MODULE BlockingOracle ----
EXTENDS Blocking, Json, IOUtils, TLC
Cases == JsonDeserialize(IOEnv.CASES)
ASSUME JsonSerialize(IOEnv.OUT, [i \in 1..Len(Cases) |->
          Expected(Cases[i].shape, Cases[i].thr, Cases[i].merge)])
====
"""

MC_CFG = """SPECIFICATION Spec
CONSTANTS MaxOrder = {o}
 MaxDim = {d}
 MaxThr = {t}
INVARIANT InvExactlyOnce
INVARIANT InvRowMajorWithin
INVARIANT InvDimsBounded
INVARIANT InvBlockOrder
INVARIANT InvMergeSound
INVARIANT InvMergeOffIdentity
CHECK_DEADLOCK FALSE
"""


def all_cases(max_order, max_dim, max_thr):
    for o in range(max_order + 1):
        for shape in itertools.product(range(1, max_dim + 1), repeat=o):
            for thr in range(1, max_thr + 1):
                for merge in (False, True):
                    yield {"shape": list(shape), "thr": thr, "merge": merge}


def random_cases(rng, n, max_numel=6000):
    out = []
    while len(out) < n:
        o = rng.choice([0, 1, 1, 2, 2, 2, 3, 3, 4, 5, 6])
        shape = [rng.choice([1, 1, 2, 3, 4, 5, 7, 8, 9, 13, 16, 17, 18, 31, 33, 48, 65] if o <= 4 else [1, 1, 2, 2, 3, 4, 5, 9]) for _ in range(o)]
        numel = 1
        for d in shape:
            numel *= d
        if numel > max_numel:
            continue
        thr = rng.choice([1, 2, 3, 4, 5, 7, 8, 8, 15, 16, 16, 17, 32, 64, 1024])     # 8, 16, 32, 64: a dimension of k * thr + 1 leaves a sliver block
        # bound the number of blocks
        nblk = 1
        for d in shape:
            nblk *= -(-d // thr)
        if nblk > 2048:
            continue
        out.append({"shape": shape, "thr": thr, "merge": rng.random() < 0.5})
    return out


def compare_case(ctx, case, exp):
    pl, gl = case.get("playout", "contig"), case.get("glayout", "contig")
    real = adapter.real_blocking(case["shape"], case["thr"], case["merge"], playout=pl, glayout=gl)
    exp_merged = list(exp["merged"]) if exp["merged"] else []
    problems = []
    # memory layouts the code cannot view without a copy may be refused (RuntimeError), never silently mis-blocked or copied
    if "refused" in real:
        if adapter.viewable(case["shape"], pl, exp_merged):
            ctx.violation(f"Distributor refuses {case} although the parameter can be viewed as {exp_merged}: {real['msg']}",
                          {"kind": "blocking_oracle", "clause": "refused"}, {"case": case})
            return False
        return True
    if "grad_refused" in real:
        if adapter.viewable(case["shape"], gl, exp_merged):
            problems.append(("gradient_refused", "blocks of the gradient", real["grad_refused"]))
        real["gidx"], real["gshapes"], real["g_same_storage"] = [list(s) if s else [] for s in exp["idx"]], [list(s) if s else [] for s in exp["shapes"]], True
    if real["merged"] is not None and real["merged"] != exp_merged:
        problems.append(("merged_shape", exp_merged, real["merged"]))
    exp_shapes = [list(s) if s else [] for s in exp["shapes"]]
    exp_idx = [list(s) if s else [] for s in exp["idx"]]
    if real["shapes"] != exp_shapes:
        problems.append(("block_shapes", exp_shapes[:4], real["shapes"][:4]))
    if real["idx"] != exp_idx:
        problems.append(("block_indices", exp_idx[:3], real["idx"][:3]))
    if real["gidx"] != exp_idx or real["gshapes"] != exp_shapes:
        problems.append(("grad_block_indices", exp_idx[:3], real["gidx"][:3]))
    for key, want in (("same_storage", True), ("g_same_storage", True), ("requires_grad", False),
                      ("offsets_ok", True), ("write_through", True)):
        if real[key] != want:
            problems.append((key, want, real[key]))
    if any(d > case["thr"] for s in real["shapes"] for d in s):
        problems.append(("dim_exceeds_max_preconditioner_dim", case["thr"], real["shapes"][:4]))
    for clause, e, o in problems:
        ctx.violation(f"real Distributor disagrees with Blocking spec on {case}: {clause}: expected {e}, observed {o}",
                      {"kind": "blocking_oracle", "clause": clause}, {"case": case})
    return not problems


def optimizer_level(ctx, rng, n):
    """The same shape in two parameter groups with different max_preconditioner_dim / merging (and more than one parameter per
    group): every group's blocks are the ones the spec gives for THAT group's settings."""
    import torch
    from distributed_shampoo.distributed_shampoo import DistributedShampoo
    from distributed_shampoo.shampoo_types import DISTRIBUTOR
    built, all_cases = [], []
    for _ in range(n):
        shape = [rng.choice([2, 3, 4, 5, 7, 9]) for _ in range(rng.choice([1, 2, 2, 3]))]
        other = [rng.choice([2, 3, 6]) for _ in range(rng.choice([1, 2]))]
        cfgs = [(rng.choice([1, 2, 3, 4, 8, 1024]), rng.random() < 0.5) for _ in range(2)]
        numel = lambda sh: int(__import__("math").prod(sh))
        groups, per_group = [], []
        for thr, merge in cfgs:
            ps = [torch.nn.Parameter(torch.arange(numel(sh), dtype=torch.float64).view(tuple(sh)).clone()) for sh in (shape, other, shape)]
            groups.append({"params": ps, "max_preconditioner_dim": thr, "use_merge_dims": merge})
            per_group.append([(sh, thr, merge) for sh in (shape, other, shape)])
        opt = DistributedShampoo(groups, lr=0.01, max_preconditioner_dim=cfgs[0][0], use_merge_dims=cfgs[0][1])
        built.append((opt, per_group, cfgs, shape, other))
        all_cases += [{"shape": list(sh), "thr": thr, "merge": merge} for grp in per_group for sh, thr, merge in grp]
    exp = oracle_eval(all_cases)
    k = 0
    for opt, per_group, cfgs, shape, other in built:
        for gi, grp in enumerate(per_group):
            d = opt._per_group_state_lists[gi][DISTRIBUTOR]
            got = [[int(v) for v in b.reshape(-1).tolist()] for b in d.local_blocked_params]
            got_shapes = [[int(x) for x in b.shape] for b in d.local_blocked_params]
            want, want_shapes = [], []
            for _ in grp:
                want += [list(x) if x else [] for x in exp[k]["idx"]]
                want_shapes += [list(x) if x else [] for x in exp[k]["shapes"]]
                k += 1
            ctx.add("evaluations")
            if got != want or got_shapes != want_shapes:
                ctx.violation(f"blocks of parameter group {gi} (settings {cfgs[gi]}) of an optimizer whose groups {cfgs} hold the same shapes "
                              f"{[shape, other, shape]} differ from the Blocking spec: expected shapes {want_shapes[:6]}, observed {got_shapes[:6]}",
                              {"kind": "blocking_oracle", "clause": "optimizer_level"}, {"groups": cfgs, "shapes": [shape, other, shape]})
    ctx.put("optimizer_level_cases", n)


def oracle_eval(cases, chunk=400):
    chunks = [cases[i:i + chunk] for i in range(0, len(cases), chunk)]
    with ThreadPoolExecutor(max_workers=12) as ex:
        outs = list(ex.map(lambda c: tlc.oracle("BlockingOracle", ORACLE, c, tag="blk-o")[0], chunks))
    return [e for o in outs for e in o]


def run(ctx):
    quick = ctx.tier == "quick"
    o, d, t = (3, 4, 5) if quick else (4, 5, 6)
    res = tlc.run("BlockingMC", (tlc.SPEC_DIR / "BlockingMC.tla").read_text(), MC_CFG.format(o=o, d=d, t=t),
                  tag="C05-mc", coverage=True)
    ctx.add_tlc(res, f"BlockingMC order<={o} dim<={d} thr<={t}")
    if not res.ok:
        raise tlc.TLCMachineryError(f"Blocking spec fails its own declarative properties: {res.violated} {res.errors}\n"
                                    + res.stdout[-2000:])
    cases = list(all_cases(o, d, t))
    rng = random.Random(ctx.seed)
    cases += random_cases(rng, 300 if quick else 6000)
    # memory layouts: parameters / gradients that are offset views, transposed or strided slices of larger buffers
    lay = [(p_, g_) for p_ in ("contig", "offset", "transposed", "sliced") for g_ in ("contig", "offset", "transposed", "sliced")][1:]
    small = [c for c in all_cases(3, 3, 3)]
    for i, c in enumerate(small if not quick else small[::3]):
        for p_, g_ in (lay if not quick else [lay[(i + j) % len(lay)] for j in range(4)]):
            cases.append(dict(c, playout=p_, glayout=g_))
    for c in random_cases(rng, 60 if quick else 1500, max_numel=2000):
        p_, g_ = rng.choice(lay)
        cases.append(dict(c, playout=p_, glayout=g_))
    exp = oracle_eval([{k: c[k] for k in ("shape", "thr", "merge")} for c in cases])
    assert len(exp) == len(cases)
    nontrivial = set()
    for c, e in zip(cases, exp):
        compare_case(ctx, c, e)
        ctx.add("evaluations")
        if len(e["shapes"]) > 1 or (c["merge"] and list(e["merged"] or []) != c["shape"]):
            nontrivial.add((tuple(c["shape"]), c["thr"], c["merge"]))
    ctx.put("distinct_nontrivial", len(nontrivial))
    ctx.put("traces_validated_against_impl", len(cases))
    ctx.put("exhaustive", True)
    ctx.put("rule", f"every shape of order 0..{o} with dims 1..{d} x max_preconditioner_dim 1..{t} x merge on/off "
                    f"(exhaustive; TLC checks the tiling invariants on each and evaluates the expected blocks, which are "
                    f"compared with the real Distributor's parameter and gradient blocks: indices, order, shapes, storage "
                    f"aliasing, write-through) plus seeded random larger shapes, and the same comparison with parameters / gradients held as offset "
                    f"views, transposed or strided slices of larger buffers (a layout that cannot be viewed may only be refused); non-trivial = more than one block or a "
                    f"merged shape different from the original")
    ctx.sample({"case": cases[len(cases) // 2], "expected_blocks": exp[len(cases) // 2]["shapes"][:6]})
    ctx.sample({"case": cases[-1], "expected_merged": exp[-1]["merged"], "n_blocks": len(exp[-1]["shapes"])})
    ctx.assume("TLC's evaluation of the Blocking operators (tla2tools 1.8.0) and the JSON bridge are trusted")
    optimizer_level(ctx, rng, 40 if quick else 400)
    from harness.drivers import invariance
    invariance.run_blocking_invariance(ctx)


def replay(ctx, data):
    if "case" not in data["replay"]:
        return optimizer_level(ctx, random.Random(ctx.seed), 400)
    case = data["replay"]["case"]
    exp = oracle_eval([{k: case[k] for k in ("shape", "thr", "merge")}])
    compare_case(ctx, case, exp[0])
    ctx.add("evaluations")
