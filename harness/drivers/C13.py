"""C13 — failed root computations tolerated N times then raised; stored roots finite."""
from __future__ import annotations

import random
import re

from harness import family
from harness.drivers import shampoo_props as sp

OWN = re.compile(r"trace\.(raised|calls|rootAt|reached)$|spec\.(RaiseIffRun|NoParamChangeOnRaise|KeepPreviousOnFail)"
                 r"|changed_on_raise|stored_root_finite|untouched_after_abort|unidentified_matrix_call")


def owns(clause, p=None):
    return bool(OWN.search(clause))


def G(pOf, nf, **kw):
    d = dict(np=max(pOf), pOf=pOf, nf=nf, freq=1, start=1, tol=1, graft=False, kind="shampoo", hasFilt=False, hasMom=False, wd0=0)
    d.update(kw)
    return d


def make_groups(rng):
    t = rng.choice(["m2x3", "v2x3", "m3p", "m2x2", "t3", "rect", "ign0", "s0v"])
    kind = rng.choice(["shampoo", "soap"])
    gs = [family.draw_group(rng, t, kind=kind, freq=rng.choice([1, 2]), tol=rng.choice([0, 1, 2]),
                            method="eigen" if kind == "shampoo" else rng.choice(["eigh", "qr"]))]
    if rng.random() < 0.3:
        gs.append(family.draw_group(rng, rng.choice(["m2x2", "v2x3"]), freq=1, tol=rng.choice([0, 1])))
    return gs


def run(ctx):
    quick = ctx.tier == "quick"
    rng = random.Random(ctx.seed * 7919 + 13)
    F = ("fail", "nan", "inf")
    mc = [("3 params x 1 factor, freq 1, tol 1, all fault kinds, 4 calls", [G([1, 2, 3], [1, 1, 1])], 4, F, ()),
          ("2 blocks (2,1 factors), freq 2, tol 1, 7 calls", [G([1, 2], [2, 1], freq=2, start=2)], 7, F, ()),
          ("2 params, tol 0, 5 calls", [G([1, 2], [1, 1], tol=0)], 5, F, ()),
          ("SOAP, 2 blocks x 2 factors, tol 2, 4 calls", [G([1, 2], [2, 2], kind="soap", tol=2)], 4, ("fail", "nan"), ())]
    if not quick:
        mc += [("3 params x 1 factor, tol 1, 5 calls", [G([1, 2, 3], [1, 1, 1])], 5, F, ()),
               ("3 params, tol 2, 6 calls, fail only", [G([1, 2, 3], [1, 1, 1], tol=2)], 6, ("fail",), ()),
               ("2 groups, tol 0/1, 4 calls", [G([1, 2], [1, 1], tol=0), G([1], [2], tol=1)], 4, ("fail", "nan"), ()),
               ("blocked param (2 blocks) + param, freq 2 start 3, 7 calls", [G([1, 1, 2], [1, 1, 1], freq=2, start=3)], 7, ("fail",), ())]
    wit = [("counter lost on re-mask", [G([1, 2, 3], [1, 1, 1])], 5, ("fail",), (), ("CounterLostOnRemask",))]
    sp.run_mc(ctx, mc, wit)
    tasks = sp.gen_tasks(ctx, rng, 10 if quick else 60, 14 if quick else 40, make_groups, 8, F, ())
    sp.run_rt(ctx, tasks, owns, "failure_tolerance")
    sp.run_histories(ctx, rng, 24 if quick else 300, make_groups, 30 if quick else 50, ("fail", "nan"), (), owns, "failure_tolerance_long")
    ctx.put("distinct_nontrivial", sp.nontrivial_count(tasks))
    ctx.put("rule", "MC: every script of {ok, fail, NaN result, non-finite gradient} per factor and refresh x every gradient-presence "
                    "history x tolerance 0..2 x frequency 1..2 within the call bounds (ghost run-length vs. the counters as coded: "
                    "RaiseIffRun, NoParamChangeOnRaise, KeepPreviousOnFail); R/T: behaviours replayed with the matrix routines "
                    "replaced by scripted outcomes keyed by the factor they are called for; exception class, stored roots of failed "
                    "factors bitwise kept, parameters bitwise unchanged on a raising step, stored roots finite; non-trivial = has a fault")
    if tasks:
        ctx.sample({"behaviour": [{k: e[k] for k in e if k != "obs"} for e in tasks[0][1]][:4]})
    ctx.assume("faults are injected at the import site of matrix_inverse_root / matrix_eigenvectors in shampoo_preconditioner_list")


def replay(ctx, data):
    sp.replay_file(ctx, data, owns, "failure_tolerance")
