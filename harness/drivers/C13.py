"""C13 — failed root computations tolerated N times then raised; stored roots finite."""
from __future__ import annotations

import random
import re

from harness import family
from harness.drivers import shampoo_props as sp

OWN = re.compile(r"trace\.(raised|calls|rootAt|reached|lCnt|mCnt)$|spec\.(RaiseIffRun|NoParamChangeOnRaise|KeepPreviousOnFail)"
                 r"|changed_on_raise|root_changed_without|computed_root_not_stored|stored_root_finite|untouched_after_abort|unidentified_matrix_call")


def owns(clause, p=None):
    return bool(OWN.search(clause))


def G(pOf, nf, **kw):
    d = dict(np=max(pOf), pOf=pOf, nf=nf, freq=1, start=1, tol=1, graft=False, kind="shampoo", hasFilt=False, hasMom=False, wd0=0)
    d.update(kw)
    return d


def make_groups(rng):
    t = rng.choice(["m2x3", "v2x3", "m3p", "m2x2", "t3", "rect", "ign0", "s0v", "rem1", "rem1", "t4", "big"])
    kind = rng.choice(["shampoo", "soap"])
    gs = [family.draw_group(rng, t, kind=kind, freq=rng.choice([1, 2]), tol=rng.choice([0, 1, 2]),
                            method="eigen" if kind == "shampoo" else rng.choice(["eigh", "qr"]))]
    if rng.random() < 0.3:
        gs.append(family.draw_group(rng, rng.choice(["m2x2", "v2x3"]), freq=1, tol=rng.choice([0, 1])))
    return gs


def run(ctx):
    quick = ctx.tier == "quick"
    rng = random.Random(ctx.seed * 7919 + 13)
    F = ("fail", "nan", "inf")
    mc = [("3 params x 1 factor, freq 1, tol 1, fail/NaN, 4 calls", [G([1, 2, 3], [1, 1, 1])], 4, ("fail", "nan"), ()),
          ("2 blocks (2,1 factors), freq 2, tol 1, 7 calls", [G([1, 2], [2, 1], freq=2, start=2)], 7, F, ()),
          ("2 params, tol 0, 5 calls", [G([1, 2], [1, 1], tol=0)], 5, F, ()),
          ("SOAP, 2 blocks x 2 factors, tol 2, 4 calls", [G([1, 2], [2, 2], kind="soap", tol=2)], 4, ("fail", "nan"), ())]
    if not quick:
        mc += [("3 params x 1 factor, tol 1, all fault kinds, 4 calls", [G([1, 2, 3], [1, 1, 1])], 4, F, ()),
               ("3 params x 1 factor, tol 1, 5 calls", [G([1, 2, 3], [1, 1, 1])], 5, F, ()),
               ("3 params, tol 2, 6 calls, fail only", [G([1, 2, 3], [1, 1, 1], tol=2)], 6, ("fail",), ()),
               ("2 groups, tol 0/1, 4 calls", [G([1, 2], [1, 1], tol=0), G([1], [2], tol=1)], 4, ("fail", "nan"), ()),
               ("blocked param (2 blocks) + param, freq 2 start 3, 7 calls", [G([1, 1, 2], [1, 1, 1], freq=2, start=3)], 7, ("fail",), ())]
    wit = [("counter lost on re-mask", [G([1, 2, 3], [1, 1, 1])], 5, ("fail",), (), ("CounterLostOnRemask",))]
    sp.run_mc(ctx, mc, wit)
    tasks = sp.gen_tasks(ctx, rng, 10 if quick else 60, 14 if quick else 40, make_groups, 8, F, ())
    # tolerated failures only (no halting outcome), every step a refresh: long alternations of fail / ok / absent
    tasks += sp.gen_tasks(ctx, rng, 8 if quick else 60, 30 if quick else 60,
                          lambda r: [family.draw_group(r, r.choice(["m3p", "v2x3", "m2x3"]), kind=r.choice(["shampoo", "soap"]), freq=1, start=1,
                                                       tol=r.choice([1, 1, 2]), method=None)],
                          10, ("fail",), (), numeric=False)
    # bounded-exhaustive: every behaviour of depth 2 (3 in the thorough tier) of three 1-factor blocks with tolerated failures
    tasks += sp.exhaustive_tasks(ctx, rng, [family.draw_group(rng, "v3p", kind="shampoo", freq=1, start=1, tol=1, method="eigen")],
                                 2 if quick else 3, ("fail",), (), numeric=False)
    if not quick:
        tasks += sp.exhaustive_tasks(ctx, rng, [family.draw_group(rng, "m2x2", kind="soap", freq=1, start=1, tol=1, method="eigh")], 2, ("fail", "nan"), (), numeric=False)
    sp.run_rt(ctx, tasks, owns, "failure_tolerance")
    sp.run_histories(ctx, rng, 24 if quick else 300, make_groups, 30 if quick else 50, ("fail",), (), owns, "failure_tolerance_long")
    sp.run_histories(ctx, rng, 8 if quick else 100, make_groups, 12, ("fail", "nan"), (), owns, "failure_tolerance_long")
    # reduced-precision parameters: the computed root must be finite IN THE STORED DTYPE (natural overflow is the outcome "nan")
    lp = []
    for i in range(18 if quick else 200):
        g = family.draw_group(rng, rng.choice(["v2x3", "fuse", "s0v", "m2x2"]), kind="shampoo", method="eigen", freq=1, start=1, tol=rng.choice([0, 1, 3]))
        g["override"] = rng.choice([0, 1, 2])
        g["beta2"] = 1.0
        g.pop("hyper_style", None)
        g["lr"] = [0.0, 0.0625, 0.03125]
        if i % 3 == 2:
            # float32 parameters with float64 factors: a root that is finite in float64 can exceed 3.4e38 (an exactly zero statistic
            # - one-hot gradients - with a tiny epsilon)
            g["eps"] = rng.choice([1e-45, 1e-60, 1e-80])
            d = family.make_draw(rng, [g], dtype="float32", pdtype="float64")
            d.update(grad_mode="sparse_first", sparse_steps=rng.choice([2, 100]))
        else:
            g["eps"] = rng.choice([1e-12, 1e-10, 1e-3])
            d = family.make_draw(rng, [g], dtype=rng.choice(["float16", "float16", "bfloat16"]), pdtype="float32")
        ab = sp.abstract_of(d)
        lp.append((d, sp.random_history(rng, d, ab, 6, (), ())))
    res = sp.pool_map(sp.history_task, lp)
    from harness import behaviours
    traces = [tr for (_, tr, err) in res]
    idx = [i for i, tr in enumerate(traces) if tr is not None]
    vals = behaviours.validate([traces[i] for i in idx]) if idx else []
    validated = [None] * len(lp)
    for i, v in zip(idx, vals):
        validated[i] = v
    sp.collect(ctx, [(d, ev, None) for d, ev in lp], res, validated, owns, "failure_tolerance_low_precision")
    ctx.add("traces_validated_against_impl", len(idx))
    ctx.put("natural_nonfinite_outcomes", sum(1 for tr in traces if tr for e in tr["events"] if e["ev"] == "Step"
                                               for go in e["outc"] for oc in go for f in oc["f"] if f == "nan"))
    ctx.put("distinct_nontrivial", sp.nontrivial_count(tasks))
    ctx.put("rule", "MC: every script of {ok, fail, NaN result, non-finite gradient} per factor and refresh x every gradient-presence "
                    "history x tolerance 0..2 x frequency 1..2 within the call bounds (ghost run-length vs. the counters as coded: "
                    "RaiseIffRun, NoParamChangeOnRaise, KeepPreviousOnFail); R/T: behaviours replayed with the matrix routines "
                    "replaced by scripted outcomes keyed by the factor they are called for; exception class, stored roots of failed "
                    "factors bitwise kept, parameters bitwise unchanged on a raising step, stored roots finite; non-trivial = has a fault")
    if tasks:
        ctx.sample({"behaviour": [{k: e[k] for k in e if k != "obs"} for e in tasks[0][1]][:4]})
    ctx.assume("faults are injected at the import site of matrix_inverse_root / matrix_eigenvectors in shampoo_preconditioner_list")


def replay(ctx, data):
    sp.replay_file(ctx, data, owns, "failure_tolerance")
