"""C09 — checkpoint save/restore at any step resumes the exact trajectory."""
from __future__ import annotations

import copy
import io
import random
import re

import torch

from harness import behaviours, family, realopt, tlc
from harness import replay as rp
from harness.drivers import shampoo_props as sp


def G(pOf, nf, **kw):
    d = dict(np=max(pOf), pOf=pOf, nf=nf, freq=2, start=2, tol=1, graft=True, kind="shampoo", hasFilt=True, hasMom=True, wd0=0)
    d.update(kw)
    return d


def make_groups(rng):
    t = rng.choice(list(family.TEMPLATES))
    gs = [family.draw_group(rng, t)]
    if rng.random() < 0.4:
        gs.append(family.draw_group(rng, rng.choice(list(family.TEMPLATES))))
    for g in gs:          # what param_groups holds matters here: ints that later become floats, a tensor lr changed in place
        r = rng.random()
        if r < 0.3:
            g["hyper_style"] = "int"
            g["lr"] = [0.0, 1.0, g["lr"][2]]
        elif r < 0.45:
            g["hyper_style"] = "tensor_lr"
    return gs


def named(params, scheme=0):
    """fully qualified names; scheme 1 makes the alphabetical order of the group keys the REVERSE of the group order
    (as with groups [weights, biases] of a real model), scheme 2 interleaves"""
    if scheme == 1:
        return [(f"{chr(ord('z') - gi)}{gi}.p{pi}", p) for gi, ps in enumerate(params) for pi, p in enumerate(ps)]
    if scheme == 2:
        return [(f"layer{pi}.g{len(params) - gi}", p) for gi, ps in enumerate(params) for pi, p in enumerate(ps)]
    return [(f"g{gi}.p{pi}", p) for gi, ps in enumerate(params) for pi, p in enumerate(ps)]


def full_snapshot(r):
    out = {}
    for gi in range(r.ng):
        out[f"step{gi}"] = realopt.group_step_value(r.opt, gi)
        for k, v in realopt.snapshot(r.opt, gi).items():
            out[f"g{gi}.b{k[0]}.{k[1]}"] = v
        for pi, p in enumerate(r.params[gi]):
            out[f"g{gi}.p{pi}"] = realopt.tensor_hash(p)
    return out


def save_and_reload(r, draw):
    """real save -> bytes -> fresh parameters + freshly constructed optimizer -> load"""
    scheme = draw["seed"] % 3
    sd = r.opt.distributed_state_dict(key_to_param=iter(named(r.params, scheme)))
    buf = io.BytesIO()
    torch.save(sd, buf)
    buf.seek(0)
    sd2 = torch.load(buf, weights_only=False)
    params2 = [[torch.nn.Parameter(p.detach().clone()) for p in ps] for ps in r.params]
    opt2, _ = realopt.build(draw, params=params2)
    opt2.load_distributed_state_dict(state_dict=sd2, key_to_param=iter(named(params2, scheme)))
    r2 = rp.Runner(draw, numeric=False, opt=opt2, params=params2)
    r2.t = r.t
    r2.hy = copy.deepcopy(r.hy)
    return r2, sd2


def sd_hash(sd):
    """hash of every tensor held by a loaded checkpoint object (loading must copy, never adopt, its tensors)"""
    out = {}
    for pk, flat in sd["state"].items():
        for k, v in flat.items():
            if isinstance(v, torch.Tensor):
                out[(pk, k)] = realopt.tensor_hash(v)
    return out


def resume_task(args):
    import logging
    logging.disable(logging.WARNING)
    torch.set_num_threads(1)
    draw, beh, ks = args
    try:
        a = rp.Runner(draw, numeric=False)
        snaps = []
        for ev in beh:
            if ev["ev"] == "SetHyper":
                a.do_sethyper(ev)
            else:
                a.do_step(ev["present"], ev["outc"])
            snaps.append(full_snapshot(a))
        mm = []
        for k in ks:
            b = rp.Runner(draw, numeric=False)
            for ev in beh[:k]:
                if ev["ev"] == "SetHyper":
                    b.do_sethyper(ev)
                else:
                    b.do_step(ev["present"], ev["outc"])
            try:
                b2, sd = save_and_reload(b, draw)
            except Exception as ex:
                mm.append((k, f"resume.load_failed.k{k}", "checkpoint of an unmodified optimizer loads", f"{type(ex).__name__}: {str(ex)[:120]}"))
                continue
            pg_bad = [(gi, key) for gi, (ga, gb) in enumerate(zip(b.opt.param_groups, b2.opt.param_groups)) for key in ga
                      if key != "params" and repr(ga[key]) != repr(gb[key])]
            if pg_bad:
                mm.append((k, f"resume.param_groups.k{k}", "every group's hyperparameters restored into that group", f"differs in {pg_bad[:4]}"))
                continue
            if k > 0 and full_snapshot(b2) != snaps[k - 1]:
                diff = sorted(x for x in snaps[k - 1] if snaps[k - 1][x] != full_snapshot(b2).get(x))
                mm.append((k, f"resume.state_after_load.k{k}", "bitwise equal to the saved state", f"differs in {diff[:4]}"))
                continue
            h0 = sd_hash(sd)
            broke = False
            # second generation: half of the runs are saved and reloaded once more, half-way through the continuation
            regen_at = k + (len(beh) - k) // 2 if (k % 2 == 0 and len(beh) - k >= 2) else None
            for i, ev in enumerate(beh[k:], start=k):
                if regen_at is not None and i == regen_at:
                    try:
                        b2, _ = save_and_reload(b2, draw)
                    except Exception as ex:
                        mm.append((i, f"resume.load_failed.k{k}", "second-generation checkpoint loads", f"{type(ex).__name__}: {str(ex)[:120]}"))
                        broke = True
                        break
                if ev["ev"] == "SetHyper":
                    b2.do_sethyper(ev)
                else:
                    b2.do_step(ev["present"], ev["outc"])
                s = full_snapshot(b2)
                if s != snaps[i]:
                    diff = sorted(x for x in snaps[i] if snaps[i][x] != s.get(x))
                    mm.append((i + 1, f"resume.trajectory.k{k}", "bitwise equal to the uninterrupted run", f"differs in {diff[:4]}"))
                    broke = True
                    break
            if not broke and sd_hash(sd) != h0:
                changed = sorted(str(x) for x in h0 if h0[x] != sd_hash(sd).get(x))
                mm.append((len(beh), f"resume.checkpoint_mutated.k{k}", "the loaded checkpoint object is left untouched by later steps",
                           f"{len(changed)} tensors changed, e.g. {changed[:2]}"))
        return mm, None, None
    except Exception:
        import traceback
        return [], None, traceback.format_exc()


# ---- negative direction: the load-outcome table ------------------------------------------------------------
ORACLE = r"""
---- MODULE LoadOracle ----
EXTENDS StateDict, Json, IOUtils
Cases == JsonDeserialize(IOEnv.CASES)
S(x) == IF x.n = 0 THEN {} ELSE {x.v[i] : i \in 1..Len(x.v)}
Side(c) == [params |-> S(c.params), groups |-> S(c.groups),
            entries |-> [p \in S(c.params) |-> S(c.entries[CHOOSE i \in 1..Len(c.params.v) : c.params.v[i] = p])]]
ASSUME JsonSerialize(IOEnv.OUT, [i \in 1..Len(Cases) |-> LoadOutcome(Side(Cases[i].saved), Side(Cases[i].live))])
====
"""


def side(sd):
    ps = sorted(sd["state"])
    W = lambda v: {"n": len(v), "v": list(v)}
    return {"params": W(ps), "groups": W(sorted(sd.get("param_groups", {}))), "entries": [W(sorted(sd["state"][p])) for p in ps]}


def mutate_sd(sd, how, rng):
    sd = {"state": {p: dict(v) for p, v in sd["state"].items()}, "param_groups": dict(sd["param_groups"])}
    if how == "drop_entry":
        p = rng.choice(sorted(sd["state"]))
        keys = sorted(sd["state"][p])
        if not keys:
            return None
        sd["state"][p].pop(rng.choice(keys))
    elif how == "drop_attribute":   # every entry of one attribute of one block's Kronecker module (D8)
        p = rng.choice(sorted(sd["state"]))
        keys = [k for k in sd["state"][p] if '"shampoo"' in k]
        if not keys:
            return None
        import json
        path = json.loads(rng.choice(keys))
        prefix = path[:3]
        victims = [k for k in keys if json.loads(k)[:3] == prefix]
        for k in victims:
            sd["state"][p].pop(k)
    elif how in ("drop_module", "drop_block"):   # everything one block's module holds / everything of one block (seed C09-R4B)
        import json
        p = rng.choice(sorted(sd["state"]))
        keys = sorted(sd["state"][p])
        if not keys:
            return None
        depth = 2 if how == "drop_module" else 1
        prefix = json.loads(rng.choice(keys))[:depth]
        victims = [k for k in keys if json.loads(k)[:depth] == prefix]
        if len(victims) == len(keys) and how == "drop_block":
            pass        # the parameter keeps an empty entry dict: the spec's LoadOutcome decides
        for k in victims:
            sd["state"][p].pop(k)
    elif how == "unknown_param":
        sd["state"]["no.such.param"] = dict(next(iter(sd["state"].values())))
    elif how == "drop_group":
        sd["param_groups"].pop(sorted(sd["param_groups"])[0])
    elif how == "extra_group":
        sd["param_groups"]["zz/extra"] = dict(next(iter(sd["param_groups"].values())))
    elif how == "rename_group":
        k = sorted(sd["param_groups"])[0]
        sd["param_groups"]["renamed/" + k] = sd["param_groups"].pop(k)
    return sd


def negative_case(args):
    import logging
    logging.disable(logging.WARNING)
    torch.set_num_threads(1)
    draw, how, seed = args
    rng = random.Random(seed)
    r = rp.Runner(draw, numeric=False)
    present = [[True] * len(g["shapes"]) for g in draw["groups"]]
    outc = [[{"inf": False, "f": ["ok"] * n} for n in ab["nf"]] for ab in r.abstract]
    r.do_step(present, outc)
    sd = r.opt.distributed_state_dict(key_to_param=iter(named(r.params)))
    live = side(sd)
    bad = mutate_sd(sd, how, rng)
    if bad is None:
        return None
    params2 = [[torch.nn.Parameter(p.detach().clone()) for p in ps] for ps in r.params]
    opt2, _ = realopt.build(draw, params=params2)
    try:
        opt2.load_distributed_state_dict(state_dict=bad, key_to_param=iter(named(params2)))
        outcome = "ok"
    except KeyError as ex:
        outcome = "KeyError_unknown_param" if "not found in key_to_param" in str(ex) else "KeyError_missing_entry"
    except ValueError as ex:
        outcome = "ValueError_group_count" if "count" in str(ex) else "ValueError_group_key"
    except Exception as ex:  # noqa
        outcome = type(ex).__name__
    return {"saved": side(bad), "live": live, "how": how, "observed": outcome}


def owns(clause, p=None):
    return clause.startswith("resume.") or "load_outcome" in clause


def run(ctx):
    quick = ctx.tier == "quick"
    rng = random.Random(ctx.seed * 7919 + 9)
    hm = [(1, "mom", 0), (1, "mom", 1), (1, "b1", 0), (1, "b1", 1)]
    mcs = [("twin run, blocked param + param, stop at every point, 5 calls", [G([1, 1, 2], [2, 2, 1])], 5, hm),
           ("twin run, 2 groups, 4 calls", [G([1, 2], [2, 0]), G([1], [1], freq=1, start=1, hasMom=False)], 4, [(1, "mom", 0), (1, "mom", 1)])]
    if not quick:
        mcs += [("twin run, 3 params, freq 3 start 4, 6 calls", [G([1, 2, 3], [1, 1, 1], freq=3, start=4)], 6, hm),
                ("twin run SOAP, 5 calls", [G([1, 1, 2], [2, 2, 2], kind="soap")], 5, hm)]
    for name, cfgs, maxcalls, moves in mcs:
        mod = behaviours.mc_module(cfgs, (), moves, (), name="MC_Res", extends="ShampooResume")
        cfg = behaviours.mc_cfg(maxcalls, False, ("ResumeEquivalence", "NoViolation"), view="ViewR").replace("SPECIFICATION Spec", "SPECIFICATION SpecR")
        res = tlc.run("MC_Res", mod, cfg, tag="C09-mc", timeout=1800, memqueue=True)
        ctx.add_tlc(res, name)
        if not res.ok:
            raise tlc.TLCMachineryError(f"{name}: twin-run specification violates {res.violated} {res.errors}\n" + "\n".join(res.trace)[-2500:])
    # R: real save / load at every stop point
    tasks = sp.gen_tasks(ctx, rng, 20 if quick else 80, 6 if quick else 20, make_groups, 6, (), ("mom", "b1", "wd", "lr"))
    # always present: eigenvalue-corrected configurations whose refresh period is > 1 (state that is only rebuilt at refreshes would be
    # stale after a resume in between), with bias correction and beta2 < 1
    def soap_between(r):
        g = family.draw_group(r, r.choice(["m2x2", "v2x3", "rect"]), kind="soap", freq=r.choice([2, 3]))
        g.update(bias_corr=True, beta2=r.choice([0.9, 0.5, 0.99]))
        return [g]
    tasks += sp.gen_tasks(ctx, rng, 3 if quick else 12, 4 if quick else 10, soap_between, 7, (), ("lr",), per_beh_redraw=False)
    rtasks = []
    for i, (d, beh, _) in enumerate(tasks):
        if i % 4 == 1:
            d = dict(d, dtype="float32", pdtype="float64")       # factor matrices in a higher precision than the parameters
        elif i % 4 == 2:
            d = dict(d, dtype="bfloat16", pdtype="float32")
        elif i % 4 == 3:
            d = dict(d, dtype="float32", pdtype="float32")
        if d["dtype"] != "float64":
            for g in d["groups"]:
                if g.get("method") in ("newton", "higher"):
                    g["method"] = "eigen"
        ks = list(range(0, len(beh) + 1))          # every stop point
        rtasks.append((d, beh, ks))
    res = sp.pool_map(resume_task, rtasks)
    sp.collect(ctx, [(d, b, None) for d, b, _ in rtasks], res, [None] * len(rtasks), owns, "resume")
    ctx.put("stop_points_exercised", sum(len(k) for _, _, k in rtasks))
    ctx.add("traces_validated_against_impl", len(rtasks))
    # DDP (DTensor) state layout: save / load on every simulated rank
    from harness.drivers import C06, dist_common as dc
    dtasks = []
    for _ in range(10 if quick else 120):
        t = C06.make_task(rng, W=rng.choice([2, 2, 3, 4]))
        # per step and parameter group: all gradients present or all absent, so no rank is ever starved (D5a)
        t["masks"] = [[[rng.random() < 0.8] * len(g["shapes"]) for g in t["draw"]["groups"]] for _ in range(5)]
        t["k"] = rng.randrange(0, 6)
        t["comm_params"] = rng.random() < 0.3
        dtasks.append(t)
    for t, r in zip(dtasks, sp.sim_map(dc.run_ddp_resume_task, dtasks, lambda r: bool(r.get("crash") or r.get("verdict") or any((r.get("errors") or {}).values()) or any((r.get("bad") or {}).values())))):
        ctx.add("evaluations")
        if "crash" in r:
            raise tlc.TLCMachineryError("simulated-rank worker crashed:\n" + r["crash"])
        bad = {k: v for k, v in r["bad"].items() if v}
        if r["verdict"] or any(r["errors"].values()) or bad:
            ctx.violation(f"DDP state layout: save/load on every rank at step {t['k']} (W={t['W']}, GS={t['GS']}): {bad or r['errors'] or r['verdict']}",
                          {"kind": "resume_ddp"}, {"ddp_task": t})
    ctx.add("ddp_layout_resume_runs", len(dtasks))
    # O: negative table
    hows = ["drop_entry", "drop_attribute", "drop_module", "drop_block", "unknown_param", "drop_group", "extra_group", "rename_group"]
    ntasks = []
    for i in range(20 if quick else 200):
        d = family.make_draw(rng, make_groups(rng))
        for how in hows:
            ntasks.append((d, how, rng.randrange(1 << 30)))
    nres = [x for x in sp.pool_map(negative_case, ntasks) if x is not None]
    exp, _ = tlc.oracle("LoadOracle", ORACLE, [{"saved": x["saved"], "live": x["live"]} for x in nres], tag="C09-o")
    hist = {}
    for x, e in zip(nres, exp):
        ctx.add("evaluations")
        hist[(x["how"], e)] = hist.get((x["how"], e), 0) + 1
        if x["observed"] != e:
            ctx.violation(f"load outcome differs from StateDict.LoadOutcome after '{x['how']}': expected {e}, observed {x['observed']}",
                          {"kind": "load_outcome", "how": x["how"], "expected": e, "observed": x["observed"]},
                          {"negative": {"how": x["how"]}})
    ctx.put("load_outcome_histogram", {f"{k[0]}->{k[1]}": v for k, v in hist.items()})
    ctx.put("distinct_nontrivial", sp.nontrivial_count(tasks))
    ctx.put("rule", "MC: twin-run (uninterrupted copy vs. copy that saves + loads into a fresh optimizer at an arbitrary point), every mask "
                    "history / hyper schedule / stop point within the call bounds, ResumeEquivalence on the durable state; R: for TLC-simulated "
                    "behaviours and stop points k (all k in the thorough tier): real distributed_state_dict -> torch.save/load bytes -> fresh "
                    "parameters and optimizer -> load_distributed_state_dict -> continue, every parameter and state tensor bitwise equal to the "
                    "uninterrupted run after every later step (Shampoo/SOAP, grafting types, momentum, filtering, 2 groups, blocked params, "
                    "orders 0..4 incl. blocks without factors); O: mutated checkpoints vs. the spec's LoadOutcome table")
    if rtasks:
        ctx.sample({"stop_points": rtasks[0][2], "n_actions": len(rtasks[0][1]),
                    "groups": [{k: g[k] for k in ("shapes", "kind", "ignored", "maxdim")} for g in rtasks[0][0]["groups"]]})
    ctx.assume("serial layout and DDP (DTensor state on simulated ranks); FSDP-family key prefixes are covered by KeysUnique-style checks in C07/C08 runs only through successful construction")


def replay(ctx, data):
    r = data["replay"]
    if "negative" in r or "ddp_task" in r:
        return run(ctx)
    beh = r["behaviour"]
    res = [resume_task((r["draw"], beh, list(range(len(beh) + 1))))]
    sp.collect(ctx, [(r["draw"], beh, None)], res, [None], owns, "resume")
