"""Simulated-rank runs of the real distributed configurations (C06, C07, C08, C14-R, C09 DTensor layout)."""
from __future__ import annotations

import copy
import os
import random

import torch

from harness import realopt, simdist

COMM = {"fp32": (torch.float32, "FP32"), "bf16": (torch.bfloat16, "BF16"), "fp16": (torch.float16, "FP16")}


def set_grads(draw, params, masks_t, t):
    for gi, g in enumerate(draw["groups"]):
        for pi, (p, shp) in enumerate(zip(params[gi], g["shapes"])):
            p.grad = realopt.make_grad(draw, gi, pi, t, shp) if masks_t[gi][pi] else None


def rounded_serial(draw, masks, comm, comm_params):
    """The single-process optimizer with the ONE permitted deviation made explicit: the communicated quantity (update or
    updated parameter) is rounded through the communication dtype.  With FP32 communication of float32 parameters this
    is the plain serial optimizer."""
    from distributed_shampoo.shampoo_types import DISTRIBUTOR
    opt, params = realopt.build(draw)
    cdt = COMM[comm][0]
    for sl in opt._per_group_state_lists:
        d = sl[DISTRIBUTOR]

        def update_params(masked_blocked_search_directions, d=d):
            ps = d.local_masked_blocked_params
            if comm_params:
                torch._foreach_add_(ps, masked_blocked_search_directions)
                for p in ps:
                    p.copy_(p.to(cdt).to(p.dtype))
            else:
                torch._foreach_add_(ps, [u.to(cdt).to(u.dtype) for u in masked_blocked_search_directions])
        d.update_params = update_params
    out = []
    for t, m in enumerate(masks, start=1):
        set_grads(draw, params, m, t)
        opt.step()
        out.append([[realopt.tensor_hash(p) for p in ps] for ps in params])
    return out


def ddp_rank_fn(task):
    draw, W, GS, comm, comm_params, masks = task["draw"], task["W"], task["GS"], task["comm"], task["comm_params"], task["masks"]

    def fn(rank, world):
        from distributed_shampoo.shampoo_types import CommunicationDType, DDPShampooConfig, DISTRIBUTOR
        torch.set_num_threads(1)
        cfg = DDPShampooConfig(communication_dtype=getattr(CommunicationDType, COMM[comm][1]), num_trainers_per_group=GS,
                               communicate_params=comm_params)
        opt, params = realopt.build(draw, distributed_config=cfg)
        info = []
        for gi in range(len(draw["groups"])):
            d = opt._per_group_state_lists[gi][DISTRIBUTOR]
            sel = list(getattr(d, "_distributor_selector", []))
            sizes = [int(b.numel()) for b in getattr(d, "_global_blocked_params", [])]
            plist = opt.param_groups[gi]["params"]
            state_keys = sorted(k for p in plist for k in opt.state[p] if k != "step")
            local_keys = sorted(bi.composable_block_ids[1] + f"@{next(i for i, p in enumerate(plist) if p is bi.param)}" for bi in d.local_block_info_list)
            seg = int(d._local_dist_buffer.numel()) if hasattr(d, "_local_dist_buffer") else None
            info.append({"selector": sel, "numels": sizes, "n_state_blocks": len(state_keys), "n_local": len(local_keys), "seg": seg})
        world.log(rank, "constructed")
        world.partial.setdefault(rank, {})["info"] = info
        hashes = world.partial[rank].setdefault("hashes", [])
        for t, m in enumerate(masks, start=1):
            set_grads(draw, params, m, t)
            opt.step()
            hashes.append([[realopt.tensor_hash(p) for p in ps] for ps in params])
            world.log(rank, "step_done", t=t)
        return {"hashes": hashes, "info": info}
    return fn


def split_log(log):
    created, gathers = [], []
    for e in log:
        if e["ev"] == "new_group" and e.get("ranks") is not None:
            created.append(e["ranks"])
        elif e["ev"] == "all_gather" and e["phase"] == "start":
            gathers.append({"grp": e["grp"], "inb": e["inb"], "outb": e["outb"]})
    return created, gathers


def run_ddp_task(task):
    """Executed in a pool worker.  Returns a JSON-able result record."""
    import logging
    logging.disable(logging.WARNING)
    torch.set_num_threads(1)
    try:
        oracle = rounded_serial(task["draw"], task["masks"], task["comm"], task["comm_params"])
        world = simdist.run_world(task["W"], ddp_rank_fn(task), seed=task.get("seed", 0))
        res = {"verdict": world.verdict[0] if world.verdict else None,
               "errors": {str(k): v[:400] for k, v in world.errors.items()},
               "logs": [dict(zip(("created", "gathers"), split_log(world.logs[r]))) for r in range(task["W"])],
               "info": {str(r): world.partial[r]["info"] for r in world.partial if "info" in world.partial[r]},
               "steps_done": {str(r): len(world.partial[r].get("hashes", [])) for r in world.partial}}
        mism = []
        for r in range(task["W"]):
            if r not in world.partial:
                continue
            for t, (a, b) in enumerate(zip(world.partial[r].get("hashes", []), oracle), start=1):
                if a != b:
                    mism.append({"rank": r, "step": t})
                    break
        res["param_mismatch"] = mism
        return res
    except Exception:
        import traceback
        return {"crash": traceback.format_exc()}


def random_masks(rng, draw, n_steps, owner_by_param=None, allow_starvation=True):
    masks = []
    cur = [[True] * len(g["shapes"]) for g in draw["groups"]]
    for _ in range(n_steps):
        if rng.random() < 0.6:
            gi = rng.randrange(len(cur))
            pi = rng.randrange(len(cur[gi]))
            cur[gi][pi] = not cur[gi][pi]
        masks.append(copy.deepcopy(cur))
    return masks
