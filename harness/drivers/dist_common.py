"""Simulated-rank runs of the real distributed configurations (C06, C07, C08, C14-R, C09 DTensor layout)."""
from __future__ import annotations

import copy
import os
import random

import torch

from harness import realopt, simdist

COMM = {"fp32": (torch.float32, "FP32"), "bf16": (torch.bfloat16, "BF16"), "fp16": (torch.float16, "FP16"),
        "default": (torch.float32, "DEFAULT")}          # DEFAULT communicates in float32


def set_grads(draw, params, masks_t, t):
    for gi, g in enumerate(draw["groups"]):
        for pi, (p, shp) in enumerate(zip(params[gi], g["shapes"])):
            if draw.get("toggle_rg"):
                p.requires_grad_(bool(masks_t[gi][pi]))
            p.grad = realopt.make_grad(draw, gi, pi, t, shp) if masks_t[gi][pi] else None


def rounded_serial(draw, masks, comm, comm_params):
    """The single-process optimizer with the ONE permitted deviation made explicit: the communicated quantity (update or
    updated parameter) is rounded through the communication dtype.  With FP32 communication of float32 parameters this
    is the plain serial optimizer."""
    from distributed_shampoo.shampoo_types import DISTRIBUTOR
    opt, params = realopt.build(draw)
    cdt = COMM[comm][0]
    for sl in opt._per_group_state_lists:
        d = sl[DISTRIBUTOR]

        def update_params(masked_blocked_search_directions, d=d):
            ps = d.local_masked_blocked_params
            if comm_params:
                torch._foreach_add_(ps, masked_blocked_search_directions)
                for p in ps:
                    p.copy_(p.to(cdt).to(p.dtype))
            else:
                torch._foreach_add_(ps, [u.to(cdt).to(u.dtype) for u in masked_blocked_search_directions])
        d.update_params = update_params
    out = []
    for t, m in enumerate(masks, start=1):
        set_grads(draw, params, m, t)
        opt.step()
        out.append([[realopt.tensor_hash(p) for p in ps] for ps in params])
    return out


def ddp_rank_fn(task):
    draw, W, GS, comm, comm_params, masks = task["draw"], task["W"], task["GS"], task["comm"], task["comm_params"], task["masks"]

    def fn(rank, world):
        from distributed_shampoo.shampoo_types import CommunicationDType, DDPShampooConfig, DISTRIBUTOR
        torch.set_num_threads(1)
        cfg = DDPShampooConfig(communication_dtype=getattr(CommunicationDType, COMM[comm][1]), num_trainers_per_group=GS,
                               communicate_params=comm_params)
        opt, params = realopt.build(draw, distributed_config=cfg)
        info = []
        for gi in range(len(draw["groups"])):
            d = opt._per_group_state_lists[gi][DISTRIBUTOR]
            sel = list(getattr(d, "_distributor_selector", []))
            sizes = [int(b.numel()) for b in getattr(d, "_global_blocked_params", [])]
            plist = opt.param_groups[gi]["params"]
            state_keys = sorted(k for p in plist for k in opt.state[p] if k != "step")
            local_keys = sorted(bi.composable_block_ids[1] + f"@{next(i for i, p in enumerate(plist) if p is bi.param)}" for bi in d.local_block_info_list)
            seg = int(d._local_dist_buffer.numel()) if hasattr(d, "_local_dist_buffer") else None
            info.append({"selector": sel, "numels": sizes, "n_state_blocks": len(state_keys), "n_local": len(local_keys), "seg": seg})
        world.log(rank, "constructed")
        world.partial.setdefault(rank, {})["info"] = info
        hashes = world.partial[rank].setdefault("hashes", [])
        for t, m in enumerate(masks, start=1):
            set_grads(draw, params, m, t)
            opt.step()
            hashes.append([[realopt.tensor_hash(p) for p in ps] for ps in params])
            world.log(rank, "step_done", t=t)
        return {"hashes": hashes, "info": info}
    return fn


def split_log(log):
    created, gathers = [], []
    for e in log:
        if e["ev"] == "new_group" and e.get("ranks") is not None:
            created.append(e["ranks"])
        elif e["ev"] == "all_gather" and e["phase"] == "start":
            gathers.append({"grp": e["grp"], "inb": e["inb"], "outb": e["outb"]})
    return created, gathers


def run_ddp_task(task):
    """Executed in a pool worker.  Returns a JSON-able result record."""
    import logging
    logging.disable(logging.WARNING)
    torch.set_num_threads(1)
    try:
        oracle = rounded_serial(task["draw"], task["masks"], task["comm"], task["comm_params"])
        world = simdist.run_world(task["W"], ddp_rank_fn(task), seed=task.get("seed", 0))
        res = {"verdict": world.verdict[0] if world.verdict else None,
               "errors": {str(k): v[:400] for k, v in world.errors.items()},
               "logs": [dict(zip(("created", "gathers"), split_log(world.logs[r]))) for r in range(task["W"])],
               "info": {str(r): world.partial[r]["info"] for r in world.partial if "info" in world.partial[r]},
               "steps_done": {str(r): len(world.partial[r].get("hashes", [])) for r in world.partial}}
        mism = []
        for r in range(task["W"]):
            if r not in world.partial:
                continue
            for t, (a, b) in enumerate(zip(world.partial[r].get("hashes", []), oracle), start=1):
                if a != b:
                    mism.append({"rank": r, "step": t})
                    break
        res["param_mismatch"] = mism
        return res
    except Exception:
        import traceback
        return {"crash": traceback.format_exc()}


def random_masks(rng, draw, n_steps, owner_by_param=None, allow_starvation=True):
    masks = []
    cur = [[True] * len(g["shapes"]) for g in draw["groups"]]
    for _ in range(n_steps):
        if rng.random() < 0.6:
            gi = rng.randrange(len(cur))
            pi = rng.randrange(len(cur[gi]))
            cur[gi][pi] = not cur[gi][pi]
        masks.append(copy.deepcopy(cur))
    return masks


# ------------------------------------------------------------------------------------------------------------------
# FSDP / HSDP (flat shards + metadata) and fully_shard / hybrid shard (dim-0 sharded DTensors)
def _pdt(task, i):
    return realopt.DT[task["dtypes"][i]] if task.get("dtypes") else torch.float32


def full_tensors(task):
    gen = torch.Generator().manual_seed(task["draw"]["seed"])
    return [torch.randn(tuple(s), generator=gen, dtype=torch.float64).to(_pdt(task, i)) for i, s in enumerate(task["shapes"])]


def full_grad(task, i, t):
    """Gradient of the full (unsharded) parameter i at step t.  task["zero_rows"]: on some steps a leading or trailing range of dim-0
    rows is exactly zero (embedding rows that were not used, frozen slices): the local gradient of some shard rank is then PRESENT
    but all-zero - which is not an absent gradient."""
    gen = torch.Generator().manual_seed(hash((task["draw"]["seed"], i, t)) % (2 ** 31))
    g = torch.randn(tuple(task["shapes"][i]), generator=gen, dtype=torch.float64).to(_pdt(task, i))
    if task.get("zero_rows") and g.dim() >= 1 and g.shape[0] > 1:
        sel = hash((task["draw"]["seed"], "z", i, t)) % 4
        h = max(1, (g.shape[0] * (1 + hash((task["draw"]["seed"], "h", i, t)) % 3)) // 4)
        if sel == 0:
            g[:h] = 0.0
        elif sel == 1:
            g[h:] = 0.0
    return g


def _row_padded(t):
    """the same values in row-padded storage (the layout `strided_local` gives the local shards)"""
    big = torch.zeros(tuple(t.shape[:-1]) + (2 * t.shape[-1] + 1,), dtype=t.dtype)
    view = big[..., :t.shape[-1]]
    view.copy_(t)
    return view


def serial_on_pieces(task, k, comm="fp32", comm_params=False):
    """The oracle of C07/C08: the single-process optimizer on the sub-tensors the spec says shard rank k holds, taken as
    independent parameters (one group, same order), communicated quantity rounded through `comm`."""
    from distributed_shampoo.shampoo_types import DISTRIBUTOR
    fulls = full_tensors(task)
    pieces = task["pieces"][k]          # per param: list of {off, len, shp}
    params, owner = [], []
    for i, ps in enumerate(pieces):
        for p in ps:
            val = fulls[i].reshape(-1)[p["off"]:p["off"] + p["len"]].view(tuple(p["shp"])).clone()
            if task.get("strided_local") and val.dim() >= 2:
                val = _row_padded(val)          # same memory layout as the rank's local shard: the comparison is bitwise
            params.append(torch.nn.Parameter(val))
            owner.append((i, p))
    if not params:
        return None
    opt, _ = realopt.build(task["draw"], params=[params])
    cdt = COMM[comm][0]
    d = opt._per_group_state_lists[0][DISTRIBUTOR]

    def update_params(masked_blocked_search_directions, d=d):
        ps = d.local_masked_blocked_params
        if comm_params:
            torch._foreach_add_(ps, masked_blocked_search_directions)
            for p in ps:
                p.copy_(p.to(cdt).to(p.dtype))
        else:
            torch._foreach_add_(ps, [u.to(cdt).to(u.dtype) for u in masked_blocked_search_directions])
    d.update_params = update_params
    out = []
    for t, m in enumerate(task["masks"], start=1):
        for prm, (i, p) in zip(params, owner):
            gv = full_grad(task, i, t).reshape(-1)[p["off"]:p["off"] + p["len"]].view(tuple(p["shp"])).clone() if m[i] else None
            if gv is not None and task.get("strided_local") and gv.dim() >= 2:
                gv = _row_padded(gv)
            prm.grad = gv
        opt.step()
        # per original parameter: the shard's content = concatenation of its pieces
        per_param = []
        for i in range(len(task["shapes"])):
            chunks = [prm.detach().reshape(-1) for prm, (j, _) in zip(params, owner) if j == i]
            per_param.append(realopt.tensor_hash(torch.cat(chunks)) if chunks else "empty")
        out.append(per_param)
    return out


def fsdp_rank_fn(task, hsdp=False):
    def fn(rank, world):
        from torch.distributed.fsdp import ShardingStrategy
        from distributed_shampoo.shampoo_types import (CommunicationDType, DISTRIBUTOR, FSDPParameterMetadata, FSDPShampooConfig,
                                                       HSDPShampooConfig)
        torch.set_num_threads(1)
        S = task["S"]
        k = rank % S
        fulls = full_tensors(task)
        params, meta_of = [], {}
        for i, (s, e) in enumerate(task["shards"][k]):
            p = torch.nn.Parameter(fulls[i].reshape(-1)[s:e].clone())
            params.append(p)
            # fully qualified names are relative to the wrapping FSDP unit: nested units repeat them ("weight", "weight", "bias")
            fqn = (("weight" if len(task["shapes"][i]) >= 2 else "bias") if task.get("dup_fqn") else f"p{i}")
            strategy = getattr(ShardingStrategy, task.get("strategy", "FULL_SHARD"))
            meta_of[i] = FSDPParameterMetadata(fqn=fqn, shape=torch.Size(task["shapes"][i]), numel=int(fulls[i].numel()),
                                               start_idx=s, end_idx=e, sharding_strategy=strategy)
        meta = {params[i]: meta_of[i] for i in task.get("meta_order", range(len(params)))}     # a mapping: its order carries no meaning
        if hsdp:
            from torch.distributed.device_mesh import DeviceMesh, init_device_mesh
            if task.get("mesh_rows"):          # replicate dimension not in ascending rank order
                mesh = DeviceMesh("cpu", torch.tensor([[r * S + c for c in range(S)] for r in task["mesh_rows"]]),
                                  mesh_dim_names=("replicate", "shard"))
            else:
                mesh = init_device_mesh("cpu", (task["R"], S), mesh_dim_names=("replicate", "shard"))
            cfg = HSDPShampooConfig(param_to_metadata=meta, device_mesh=mesh,
                                    communication_dtype=getattr(CommunicationDType, COMM[task["comm"]][1]),
                                    num_trainers_per_group=task["GS"], communicate_params=task["comm_params"])
        else:
            cfg = FSDPShampooConfig(param_to_metadata=meta)
        opt, _ = realopt.build(task["draw"], params=[params], distributed_config=cfg)
        d = opt._per_group_state_lists[0][DISTRIBUTOR]
        info = {"selector": list(d._distributor_selector), "blocks_per_param": list(d._global_num_blocks_per_param),
                "seg": int(d._local_dist_buffer.numel()) if hasattr(d, "_local_dist_buffer") else 0,
                "block_keys": [bi.composable_block_ids[1] for bi in d.local_block_info_list]}
        world.partial.setdefault(rank, {})["info"] = info
        hashes = world.partial[rank].setdefault("hashes", [])
        for t, m in enumerate(task["masks"], start=1):
            for i, p in enumerate(params):
                s, e = task["shards"][k][i]
                p.grad = full_grad(task, i, t).reshape(-1)[s:e].clone() if m[i] else None
            opt.step()
            hashes.append([realopt.tensor_hash(p) if p.numel() else "empty" for p in params])
        return True
    return fn


def run_shard_task(task):
    """FSDP (W = S) or HSDP (W = R*S) on simulated ranks vs. the serial optimizer on the spec's recovered pieces."""
    import logging
    logging.disable(logging.WARNING)
    torch.set_num_threads(1)
    try:
        hsdp = task["kind"] == "hsdp"
        W = task["S"] * (task["R"] if hsdp else 1)
        oracles = [serial_on_pieces(task, k, task.get("comm", "fp32"), task.get("comm_params", False)) for k in range(task["S"])]
        world = simdist.run_world(W, fsdp_rank_fn(task, hsdp), seed=task.get("seed", 0))
        res = {"verdict": world.verdict[0] if world.verdict else None,
               "errors": {str(k): v[:500] for k, v in world.errors.items()},
               "logs": [dict(zip(("created", "gathers"), split_log(world.logs[r]))) for r in range(W)],
               "meshes": [[e["mesh"] for e in world.logs[r] if e["ev"] == "mesh" and e["miss"]] for r in range(W)],
               "info": {str(r): world.partial[r]["info"] for r in world.partial if "info" in world.partial[r]}}
        mism = []
        for r in range(W):
            if r not in world.partial:
                continue
            orc = oracles[r % task["S"]]
            if orc is None:
                continue
            for t, (a, b) in enumerate(zip(world.partial[r].get("hashes", []), orc), start=1):
                if a != b:
                    mism.append({"rank": r, "step": t, "params": [i for i, (x, y) in enumerate(zip(a, b)) if x != y]})
                    break
        res["param_mismatch"] = mism
        return res
    except Exception:
        import traceback
        return {"crash": traceback.format_exc()}


def dtensor_rank_fn(task, hybrid=False):
    def fn(rank, world):
        from torch.distributed.device_mesh import init_device_mesh
        from torch.distributed.tensor import DTensor, Replicate, Shard
        from distributed_shampoo.shampoo_types import CommunicationDType, DISTRIBUTOR, FullyShardShampooConfig, HybridShardShampooConfig
        torch.set_num_threads(1)
        S = task["S"]
        fulls = full_tensors(task)
        if hybrid:
            if task.get("mesh_rows"):
                # a hand-built mesh whose replicate dimension is not in increasing rank order (rows of the R x S grid permuted)
                from torch.distributed.device_mesh import DeviceMesh
                grid = torch.tensor([[r * S + c for c in range(S)] for r in task["mesh_rows"]])
                mesh = DeviceMesh("cpu", grid, mesh_dim_names=("replicate", "shard"))
            else:
                mesh = init_device_mesh("cpu", (task["R"], S), mesh_dim_names=("replicate", "shard"))
            place = [Replicate(), Shard(0)]
            cfg = HybridShardShampooConfig(device_mesh=mesh, communication_dtype=getattr(CommunicationDType, COMM[task["comm"]][1]),
                                           num_trainers_per_group=task["GS"], communicate_params=task["comm_params"])
        else:
            mesh = init_device_mesh("cpu", (S,))
            place = [Shard(0)]
            cfg = FullyShardShampooConfig()
        k = rank % S

        def local_of(full, i):
            """this rank's dim-0 slab, built WITHOUT collectives (DTensor.from_local) from the spec's Dim0Pieces"""
            pcs = task["pieces"][k][i]
            if pcs:
                loc = full.reshape(-1)[pcs[0]["off"]:pcs[0]["off"] + pcs[0]["len"]].view(tuple(pcs[0]["shp"])).clone()
                if task.get("strided_local") and loc.dim() >= 2:
                    # the local shard sits in row-padded storage (stride of the last-but-one dimension larger than the row length)
                    loc = _row_padded(loc)
            else:
                loc = torch.zeros((0,) + tuple(full.shape[1:]), dtype=full.dtype)
            return DTensor.from_local(loc, mesh, place, run_check=False, shape=full.shape, stride=full.stride())
        params = [torch.nn.Parameter(local_of(f, i)) for i, f in enumerate(fulls)]
        opt, _ = realopt.build(task["draw"], params=[params], distributed_config=cfg)
        d = opt._per_group_state_lists[0][DISTRIBUTOR]
        info = {"selector": list(d._distributor_selector), "blocks_per_param": list(d._global_num_blocks_per_param),
                "seg": int(d._local_dist_buffer.numel()) if hasattr(d, "_local_dist_buffer") else 0,
                "block_keys": [bi.composable_block_ids[1] for bi in d.local_block_info_list],
                "nonempty": [int(p.to_local().numel() > 0) for p in params]}
        world.partial.setdefault(rank, {})["info"] = info
        hashes = world.partial[rank].setdefault("hashes", [])
        for t, m in enumerate(task["masks"], start=1):
            for i, p in enumerate(params):
                p.grad = local_of(full_grad(task, i, t), i) if m[i] else None
            opt.step()
            hashes.append([realopt.tensor_hash(p.to_local()) if p.to_local().numel() else "empty" for p in params])
        return True
    return fn


def run_dtensor_task(task):
    """fully_shard (W = S) or hybrid shard (W = R*S) on simulated ranks vs. the serial optimizer on the local shards."""
    import logging
    logging.disable(logging.WARNING)
    torch.set_num_threads(1)
    try:
        hybrid = task["kind"] == "hybrid"
        W = task["S"] * (task["R"] if hybrid else 1)
        oracles = [serial_on_pieces(task, k, task.get("comm", "fp32"), task.get("comm_params", False)) for k in range(task["S"])]
        world = simdist.run_world(W, dtensor_rank_fn(task, hybrid), seed=task.get("seed", 0))
        res = {"verdict": world.verdict[0] if world.verdict else None,
               "errors": {str(k): v[:500] for k, v in world.errors.items()},
               "logs": [dict(zip(("created", "gathers"), split_log(world.logs[r]))) for r in range(W)],
               "meshes": [[e["mesh"] for e in world.logs[r] if e["ev"] == "mesh" and e["miss"]] for r in range(W)],
               "info": {str(r): world.partial[r]["info"] for r in world.partial if "info" in world.partial[r]}}
        mism = []
        for r in range(W):
            if r not in world.partial:
                continue
            orc = oracles[r % task["S"]]
            if orc is None:
                continue
            for t, (a, b) in enumerate(zip(world.partial[r].get("hashes", []), orc), start=1):
                if a != b:
                    mism.append({"rank": r, "step": t, "params": [i for i, (x, y) in enumerate(zip(a, b)) if x != y]})
                    break
        res["param_mismatch"] = mism
        return res
    except Exception:
        import traceback
        return {"crash": traceback.format_exc()}


def ddp_resume_rank_fn(task):
    """C09 with the DDP (DTensor) state layout: every rank saves after step k, loads into a freshly constructed optimizer over
    copies of its parameters, continues; compared bitwise with the uninterrupted run on the same rank."""
    draw, W, GS, masks, k = task["draw"], task["W"], task["GS"], task["masks"], task["k"]

    def fn(rank, world):
        import io
        from distributed_shampoo.shampoo_types import CommunicationDType, DDPShampooConfig
        torch.set_num_threads(1)

        def cfg():
            return DDPShampooConfig(communication_dtype=CommunicationDType.FP32, num_trainers_per_group=GS, communicate_params=task["comm_params"])

        def named(params):
            return [(f"g{gi}.p{pi}", p) for gi, ps in enumerate(params) for pi, p in enumerate(ps)]

        def snap(opt, params):
            out = [[realopt.tensor_hash(p) for p in ps] for ps in params]
            for gi in range(len(draw["groups"])):
                out.append(sorted((str(kk), v) for kk, v in realopt.snapshot(opt, gi).items()))
                out.append(realopt.group_step_value(opt, gi))
            return out
        a_opt, a_params = realopt.build(draw, distributed_config=cfg())
        ref = []
        for t, m in enumerate(masks, start=1):
            set_grads(draw, a_params, m, t)
            a_opt.step()
            ref.append(snap(a_opt, a_params))
        b_opt, b_params = realopt.build(draw, distributed_config=cfg())
        for t, m in enumerate(masks[:k], start=1):
            set_grads(draw, b_params, m, t)
            b_opt.step()
        sd = b_opt.distributed_state_dict(key_to_param=iter(named(b_params)))
        if task.get("serialize", True):
            buf = io.BytesIO()
            torch.save(sd, buf)
            buf.seek(0)
            sd = torch.load(buf, weights_only=False)
        c_params = [[torch.nn.Parameter(p.detach().clone()) for p in ps] for ps in b_params]
        c_opt, _ = realopt.build(draw, params=c_params, distributed_config=cfg())
        c_opt.load_distributed_state_dict(state_dict=sd, key_to_param=iter(named(c_params)))
        bad = []
        if k > 0 and snap(c_opt, c_params) != ref[k - 1]:
            bad.append({"at": k, "what": "state after load differs from the saved state"})
        for t, m in enumerate(masks[k:], start=k + 1):
            set_grads(draw, c_params, m, t)
            c_opt.step()
            if snap(c_opt, c_params) != ref[t - 1]:
                bad.append({"at": t, "what": "trajectory after resume differs"})
                break
        world.partial.setdefault(rank, {})["resume_bad"] = bad
        return True
    return fn


def run_ddp_resume_task(task):
    import logging
    logging.disable(logging.WARNING)
    torch.set_num_threads(1)
    try:
        world = simdist.run_world(task["W"], ddp_resume_rank_fn(task), seed=task.get("seed", 0))
        return {"verdict": world.verdict[0] if world.verdict else None, "errors": {str(k): v[:600] for k, v in world.errors.items()},
                "bad": {str(r): world.partial[r].get("resume_bad") for r in world.partial}}
    except Exception:
        import traceback
        return {"crash": traceback.format_exc()}


def fsdp_metadata_task(task):
    """Real torch FSDP (use_orig_params=True) on simulated ranks: compile_fsdp_parameter_metadata must give the shard boundaries of the
    spec's flat-parameter model (FlatShardsA with 16-byte alignment)."""
    import logging
    logging.disable(logging.WARNING)
    torch.set_num_threads(1)
    try:
        import torch.nn as nn
        from torch.distributed.fsdp import FullyShardedDataParallel as FSDP
        from distributed_shampoo.utils.shampoo_fsdp_utils import compile_fsdp_parameter_metadata, parse_fsdp_params
        shapes = task["shapes"]

        class M(nn.Module):
            def __init__(self):
                super().__init__()
                self.ps = nn.ParameterList([nn.Parameter(torch.zeros(tuple(s))) for s in shapes])

        def fn(rank, world):
            m = FSDP(M(), use_orig_params=True, device_id=torch.device("cpu"))
            md = compile_fsdp_parameter_metadata(m)
            named = dict(m.named_parameters())
            f, h, o = parse_fsdp_params(named, md)
            by_fqn = {v.fqn: (int(v.start_idx), int(v.end_idx), [int(x) for x in v.shape], int(v.numel), int(p.numel())) for p, v in md.items()}
            return {"meta": [by_fqn.get(f"ps.{i}") for i in range(len(shapes))], "parts": [len(f), len(h), len(o)], "named": len(named)}
        world = simdist.run_world(task["S"], fn, seed=0, timeout=40)
        return {"errors": {str(k): v[:300] for k, v in world.errors.items()}, "ranks": {str(r): world.results.get(r) for r in range(task["S"])}}
    except Exception:
        import traceback
        return {"crash": traceback.format_exc()}
