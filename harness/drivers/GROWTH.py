"""Growth beyond the listed properties (not a property check, not in MANIFEST.checks):
   * spec/Quantized — QuantizedTensorList / DequantizeQuantizedTensorListContext as a state machine: model checked by TLC, and
     TLC -simulate behaviours replayed into the real class with the abstract state compared after every action.
   * checkpoints on the LIVE optimizer (ShampooOpt!Save / Load, SetHyperAll): model checked with faults and hyper moves, and
     TLC behaviours with Save / Load replayed into the real optimizer (state restored bitwise, param_groups restored, float64
     reference rolled back with it), every recorded trace validated by spec/ShampooTrace.
Run with  ./check GROWTH  (writes evidence/GROWTH.json, exit code as for property checks)."""
from __future__ import annotations

import json
import random
import re

import torch

from harness import tlc

MC = """SPECIFICATION Spec
CONSTANTS N = {n}
 SameDtype = {same}
 MaxVer = 2
 MaxOps = {ops}
INVARIANT TypeOK
INVARIANT AliasWhenSameDtype
PROPERTY NoStaleCopyAfterQuantize
PROPERTY RoundTrip
PROPERTY QuantizeWithoutCopyIsNoOp
CHECK_DEADLOCK FALSE
"""
EMIT = r"""
---- MODULE QuantizedSim ----
EXTENDS Quantized, Json
VARIABLE hist
InitH == Init /\ hist = <<>>
Rec(name, args) == hist' = Append(hist, [op |-> name, args |-> args, q |-> q', stored |-> deq' # None, deq |-> IF deq' = None THEN q' ELSE deq', warned |-> warned'])
NextH == \/ Dequantize /\ Rec("dequantize_", <<>>)
         \/ Quantize /\ Rec("quantize_", <<>>)
         \/ \E i \in Idx : \E v \in 1..MaxVer : (Modify(i, v) /\ Rec("modify", <<i, v>>)) \/ (ChildWrite(i, v) /\ Rec("child_write", <<i, v>>))
         \/ \E vals \in [Idx -> 0..MaxVer] : QuantizeFrom(vals) /\ Rec("quantize", vals)
         \/ \E sel \in SUBSET Idx : Compress(sel) /\ Rec("compress", [i \in Idx |-> i \in sel])
SpecH == InitH /\ [][NextH]_<<vars, hist>>
Emit == nOps = MaxOps => PrintT(<<"BEH", ToJson(hist)>>)
====
"""


def replay_behaviour(beh, same):
    from distributed_shampoo.utils.shampoo_quantization import DequantizeQuantizedTensorListContext, QuantizedTensorList
    from distributed_shampoo.utils.shampoo_block_info import BlockInfo
    n = len(beh[0]["q"])
    qd, cd = (torch.float32, torch.float32) if same else (torch.float16, torch.float32)
    store = tuple(torch.zeros(2, dtype=qd) for _ in range(n))
    qtl = QuantizedTensorList(tuple((t, None, None) for t in store), qd, cd)
    child = None
    ctx = None
    for step, ev in enumerate(beh, start=1):
        op, a = ev["op"], ev["args"]
        if op == "dequantize_":
            ctx = DequantizeQuantizedTensorListContext(qtl)
            ctx.__enter__()
        elif op == "quantize_":
            (ctx or DequantizeQuantizedTensorListContext(qtl)).__exit__(None, None, None)
            ctx = None
        elif op == "modify":
            qtl.dequantized_value[a[0] - 1].fill_(float(a[1]))
        elif op == "quantize":
            qtl.quantize(tuple(torch.full((2,), float(v), dtype=cd) for v in a))
        elif op == "compress":
            child = qtl.compress(tuple(bool(x) for x in a))
            child_idx = [i for i, x in enumerate(a) if x]
        elif op == "child_write":
            child.quantized_value[child_idx.index(a[0] - 1)].fill_(float(a[1]))
        got_q = [int(t[0].item()) for t in qtl.quantized_value]
        got_stored = qtl.is_dequantized_stored()
        if got_q != list(ev["q"]) or got_stored != ev["stored"]:
            return (step, op, {"q": list(ev["q"]), "stored": ev["stored"]}, {"q": got_q, "stored": got_stored})
        if got_stored:
            got_d = [int(t[0].item()) for t in qtl.dequantized_value]
            if got_d != list(ev["deq"]):
                return (step, op, {"deq": list(ev["deq"])}, {"deq": got_d})
        if any(t.data_ptr() != s.data_ptr() for t, s in zip(qtl.quantized_value, store)):
            return (step, op, "storage tensors keep their identity", "replaced")
    return None


def live_load(ctx, quick, rng):
    from harness import behaviours, family
    from harness.drivers import shampoo_props as sp
    from harness.drivers.C01 import G
    hm = [(1, "mom", 0), (1, "mom", 2), (1, "wd", 1), (0, "lr", 2), (1, "freq", 1), (1, "freq", 3)]
    for name, cfg, calls, faults, moves in (
            ("1 group (2,1 blocks), freq 2 start 3, grafting, Save/Load, hyper, 5 calls", [G([1, 1, 2], [2, 2, 1], start=3, graft=True)], 5, ("fail",), hm),
            ("2 groups, freq 2/1, Save/Load, scheduler moves, 5 calls", [G([1, 1], [2, 2]), G([1], [2], freq=1, start=1, hasMom=False)], 5, (), [(0, "lr", 2), (0, "wd", 1)]),
            ("SOAP 2 blocks, failures, Save/Load, 5 calls", [G([1, 2], [2, 2], freq=1, start=1, kind="soap", hasFilt=True, hasMom=False, tol=1)], 5, ("fail",), ())):
        res = behaviours.check(cfg, calls if quick else calls + 1, faults=faults, moves=moves, ckpt=True,
                               invariants=("NoViolation", "TypeOK", "CkptOK"), tag="GROWTH-ckpt")
        ctx.add_tlc(res, "ShampooOpt Ckpt=TRUE: " + name)
        if not res.ok:
            raise tlc.TLCMachineryError(f"ShampooOpt with Save/Load violates {res.violated} {res.errors}\n" + "\n".join(res.trace)[-1500:])

    def make_groups(r):
        gs = [family.draw_group(r, r.choice(["m2x3", "v2x3", "m2x2", "t3", "s0v", "rect", "ign0", "fuse", "many"]))]
        if r.random() < 0.4:
            gs.append(family.draw_group(r, r.choice(["m2x2", "v2x3"])))
        return gs
    tasks = sp.gen_tasks(ctx, rng, 10 if quick else 60, 10 if quick else 30, make_groups, 8, ("fail",), ("mom", "b1", "wd", "lr", "freq"), ckpt=True)
    sp.run_rt(ctx, tasks, lambda clause, p=None: True, "live_load")
    ctx.put("behaviours_with_load", sum(1 for _, b, _ in tasks if any(e["ev"] == "Load" for e in b)))


def run(ctx):
    quick = ctx.tier == "quick"
    rng = random.Random(ctx.seed + 99)
    spec = (tlc.SPEC_DIR / "Quantized.tla").read_text()
    for same in (True, False):
        res = tlc.run("Quantized", spec, MC.format(n=2, same="TRUE" if same else "FALSE", ops=4 if quick else 5), tag="GROWTH-mc", timeout=1200)
        ctx.add_tlc(res, f"Quantized N=2 SameDtype={same}")
        if not res.ok:
            raise tlc.TLCMachineryError(f"Quantized spec violates {res.violated} {res.errors}\n{res.stdout[-1500:]}")
        cfg = (f"SPECIFICATION SpecH\nCONSTANTS N = 2\n SameDtype = {'TRUE' if same else 'FALSE'}\n MaxVer = 2\n MaxOps = 6\n"
               "INVARIANT Emit\nCHECK_DEADLOCK FALSE\n")
        sim = tlc.run("QuantizedSim", EMIT, cfg, tag="GROWTH-sim", simulate=f"num={20 if quick else 200}", depth=8, seed=ctx.seed + 5, workers=1, timeout=600)
        # bounded-exhaustive: EVERY behaviour of 3 (4) operations (the history variable makes the state graph a tree)
        cfg3 = cfg.replace("MaxOps = 6", f"MaxOps = {3 if quick else 4}")
        allb = tlc.run("QuantizedSim", EMIT, cfg3, tag="GROWTH-enum", workers=16, timeout=1200, memqueue=True)
        ctx.add("bounded_exhaustive_behaviours", sum(1 for p in allb.printed if p.startswith('<<"BEH"')))
        behs = []
        for p in sim.printed + allb.printed:
            if p.startswith('<<"BEH"'):
                try:
                    behs.append(json.loads(json.loads(p[len('<<"BEH", '):-2].strip())))
                except Exception:
                    pass
        seen = set()
        for beh in behs:
            key = json.dumps(beh, sort_keys=True)
            if key in seen:
                continue
            seen.add(key)
            ctx.add("evaluations")
            ctx.add("traces_validated_against_impl")
            bad = replay_behaviour(beh, same)
            if bad:
                ctx.violation(f"QuantizedTensorList (same dtype={same}) diverges from spec/Quantized at action {bad[0]} ({bad[1]}): expected {bad[2]}, observed {bad[3]}",
                              {"kind": "quantized", "op": bad[1]}, {"behaviour": beh, "same": same})
        if behs:
            ctx.sample({"same_dtype": same, "behaviour": [(e["op"], e["args"]) for e in behs[0]]})
    live_load(ctx, quick, rng)
    from harness.drivers import growth_utils
    growth_utils.utils_growth(ctx, quick, rng)
    ctx.put("distinct_nontrivial", int(ctx.coverage.get("evaluations", 0)))
    ctx.put("rule", "TLC model-checks spec/Quantized (context contract as action properties) and emits random behaviours that are stepped "
                    "through the real QuantizedTensorList / DequantizeQuantizedTensorListContext with the abstract state compared after every action")


def replay(ctx, data):
    r = data["replay"]
    from harness.drivers import growth_utils
    if growth_utils.replay(ctx, r):
        return
    bad = replay_behaviour(r["behaviour"], r["same"])
    ctx.add("evaluations")
    if bad:
        ctx.violation(f"QuantizedTensorList diverges at action {bad[0]}", {"kind": "quantized", "op": bad[1]}, r)
