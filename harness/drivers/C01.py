"""C01 — every step follows the documented Shampoo update rule."""
from __future__ import annotations

import copy
import random
import re

import torch

from harness import family, realopt
from harness import replay as rp
from harness.drivers import shampoo_props as sp

OWN = re.compile(r"\.value\.|\.shape\.|trace\.(refresh|usegraft|step|stepped|rootAt|calls|active|reached|raised)$"
                 r"|spec\.(RefreshTiming|RefreshComplete|OncePerStep|StepCounter)|own_buffer_updated|root_changed_without|computed_root_not_stored|untouched_after_abort|group_independence|dtype_plumbing")


def owns(clause, p=None):
    return bool(OWN.search(clause))


def G(pOf, nf, **kw):
    d = dict(np=max(pOf), pOf=pOf, nf=nf, freq=2, start=2, tol=1, graft=False, kind="shampoo", hasFilt=True, hasMom=True, wd0=0)
    d.update(kw)
    return d


def make_groups(rng):
    t = rng.choice(list(family.TEMPLATES))
    gs = [family.draw_group(rng, t, kind="shampoo")]
    if rng.random() < 0.4:
        g2 = family.draw_group(rng, rng.choice(list(family.TEMPLATES)), kind="shampoo")
        if rng.random() < 0.5 and g2["freq"] <= gs[0]["start"]:
            g2["start"] = gs[0]["start"]         # then the group leaves the start step unset and must inherit the resolved value
        gs.append(g2)
    if rng.random() < 0.15:                      # iterative root solvers (looser agreement with the eigendecomposition reference)
        for g in gs:
            g["method"], g["mult"] = rng.choice(["newton", "higher"]), 1.0
            if isinstance(g["override"], list) or g["override"] == 1:
                g["override"] = 0
    return gs


def independence_task(args):
    """Several parameter groups behave exactly like independent optimizers built with each group's effective settings."""
    import logging
    logging.disable(logging.WARNING)
    torch.set_num_threads(1)
    draw, beh = args
    try:
        multi = rp.Runner(copy.deepcopy(draw), numeric=False)
        solos = []
        for gi, g in enumerate(draw["groups"]):
            d1 = copy.deepcopy(draw)
            g1 = copy.deepcopy(g)
            g1["beta3"] = rp.effective_beta3(draw, gi)          # inherited RESOLVED value
            d1["groups"] = [g1]
            r = rp.Runner(d1, numeric=False)
            # same initial parameters as the multi-group run
            for p_s, p_m in zip(r.params[0], multi.params[gi]):
                p_s.data.copy_(p_m.data)
            solos.append(r)
        mm = []
        for i, ev in enumerate(beh):
            if ev["ev"] == "SetHyper":
                multi.do_sethyper(ev)
                solos[ev["g"] - 1].do_sethyper(dict(ev, g=1))
                continue
            multi.do_step(ev["present"], ev["outc"])
            for gi, r in enumerate(solos):
                # the solo optimizer must see the SAME gradients as group gi of the multi run
                r.t = multi.t
                grads = multi.make_grads(ev["present"], ev["outc"])[gi]
                orig = r.make_grads
                r.make_grads = lambda present, outc, _g=grads: [_g]
                r.do_step([ev["present"][gi]], [ev["outc"][gi]])
                r.make_grads = orig
                a = realopt.snapshot(multi.opt, gi)
                b = realopt.snapshot(r.opt, 0)
                if a != b or realopt.group_step_value(multi.opt, gi) != realopt.group_step_value(r.opt, 0):
                    diff = sorted(k for k in a if a[k] != b.get(k))
                    mm.append((i + 1, f"g{gi+1}.group_independence", "bitwise equal to the single-group optimizer", f"differs in {diff[:4]}"))
            if mm:
                break
        return mm, None, None
    except Exception:
        import traceback
        return [], None, traceback.format_exc()


def plumbing_task(args):
    """dtype pairings (parameter dtype x preconditioner_dtype): the step must run; trace validated by TLC."""
    import logging
    logging.disable(logging.WARNING)
    torch.set_num_threads(1)
    draw, beh = args
    try:
        mm, tr = rp.run_behaviour(draw, beh, numeric=False)
        return mm, tr, None
    except Exception:
        import traceback
        return [], None, traceback.format_exc()


def run(ctx):
    quick = ctx.tier == "quick"
    rng = random.Random(ctx.seed * 7919 + 1)
    hm = [(1, "mom", 0), (1, "mom", 2), (1, "b1", 2), (1, "wd", 1), (1, "lr", 2)]
    mc = [("1 group (2,1 blocks), freq 2 start 3, grafting, hyper schedule, 5 calls", [G([1, 1, 2], [2, 2, 1], start=3, graft=True)], 5, (), hm),
          ("1 group 3 params, freq 3 start 4, 6 calls", [G([1, 2, 3], [1, 1, 1], freq=3, start=4)], 6, (), ()),
          ("2 groups ((2),(1)), freq 2/1, 4 calls", [G([1, 1], [2, 2]), G([1], [2], freq=1, start=1, hasMom=False)], 4, (), [(1, "mom", 0), (1, "mom", 1)])]
    if not quick:
        mc += [("1 group (1,1,1), freq 1 start 3, 6 calls", [G([1, 2, 3], [2, 1, 0], freq=1, start=3, graft=True)], 6, (), ()),
               ("2 groups ((1),(1)), freq 2/3, 6 calls", [G([1], [2], freq=2, start=2), G([1], [1], freq=3, start=5, graft=True)], 6, (), hm),
               ("1 group (2,1), freq 2 start 4, 6 calls, hyper", [G([1, 1, 2], [2, 2, 2], start=4, graft=True)], 6, (), hm)]
    sp.run_mc(ctx, mc, [])
    tasks = sp.gen_tasks(ctx, rng, 14 if quick else 80, 14 if quick else 40, make_groups, 8, (), ("mom", "b1", "wd", "lr"))
    # structured sparsity on blocks with modes of size >= 3 (exactly zero slices: the factor's diagonal fast path and its hand-over)
    st = sp.gen_tasks(ctx, rng, 4 if quick else 16, 5 if quick else 12,
                      lambda r: [family.draw_group(r, r.choice(["big", "rect", "rem1", "t4", "s0v", "many"]), kind="shampoo")], 7, (), ("lr",))
    for d, _, _ in st:
        d.update(grad_mode=rng.choice(["striped", "striped", "sparse_first"]), sparse_steps=rng.choice([3, 100]), stripe_largest=rng.random() < 0.7)
        d.pop("grad_scales", None)
    tasks += st
    # how hyperparameters are held in param_groups: a tensor learning rate changed in place, ints that become floats; lr moves only
    def styled(r):
        g = family.draw_group(r, r.choice(["m2x2", "v2x3", "rect", "s0v"]), kind="shampoo")
        g["hyper_style"] = r.choice(["tensor_lr", "tensor_lr", "int"])
        if g["hyper_style"] == "int":
            g["lr"] = [0.0, 1.0, g["lr"][2]]
        return [g]
    tasks += sp.gen_tasks(ctx, rng, 3 if quick else 12, 5 if quick else 12, styled, 7, (), ("lr",), per_beh_redraw=False)
    # per-order exponent overrides shorter than the tensor order, on unmerged tensors of order 3 and 4

    def overridden(r):
        g = family.draw_group(r, r.choice(["t3", "t4", "t4", "rect"]), kind="shampoo", method="eigen")
        g["override"], g["mult"] = r.choice([[1], [1, 2], [2, 3], [1, 2, 3], [3]]), 1.0
        return [g]
    tasks += sp.gen_tasks(ctx, rng, 3 if quick else 12, 4 if quick else 10, overridden, 6, (), (), per_beh_redraw=False)
    # bounded-exhaustive: every behaviour of depth 4 of a 2-param group around the start / refresh boundary
    tasks += sp.exhaustive_tasks(ctx, rng, [family.draw_group(rng, "m2x2", kind="shampoo", freq=2, start=3)], 4 if quick else 5, (), ())
    sp.run_rt(ctx, tasks, owns, "update_rule")
    # group independence (bitwise) on the two-group behaviours
    two = [(d, b) for d, b, _ in tasks if len(d["groups"]) == 2]
    two = rng.sample(two, min(len(two), 40 if quick else 400))
    res = sp.pool_map(independence_task, two)
    sp.collect(ctx, [(d, b, None) for d, b in two], res, [None] * len(two), owns, "group_independence")
    ctx.add("group_independence_runs", len(two))
    # dtype pairings
    pair_tasks = []
    for d, b, _ in rng.sample(tasks, min(len(tasks), 30 if quick else 300)):
        for dt, pdt in (("float32", "float32"), ("float32", "float64"), ("bfloat16", "float32"), ("float64", "float32")):
            if any(g.get("method") in ("newton", "higher") for g in d["groups"]) and pdt != "float64":
                continue
            dd = copy.deepcopy(d)
            dd["dtype"], dd["pdtype"] = dt, pdt
            pair_tasks.append((dd, b))
    res = sp.pool_map(plumbing_task, pair_tasks)
    traces = [tr for (_, tr, err) in res]
    from harness import behaviours
    idx = [i for i, tr in enumerate(traces) if tr is not None]
    vals = behaviours.validate([traces[i] for i in idx]) if idx else []
    validated = [None] * len(pair_tasks)
    for i, v in zip(idx, vals):
        validated[i] = v
    sp.collect(ctx, [(d, b, None) for d, b in pair_tasks], res, validated, owns, "dtype_plumbing")
    ctx.add("traces_validated_against_impl", len(idx))
    ctx.add("dtype_pairing_runs", len(pair_tasks))
    sp.run_histories(ctx, rng, 16 if quick else 200, make_groups, 30, (), ("mom", "b1", "wd", "lr"), owns, "update_rule_long")
    sp.run_repo_tests(ctx, owns, "update_rule_repo_tests")
    ctx.put("distinct_nontrivial", sp.nontrivial_count(tasks))
    ctx.put("rule", "MC: all mask histories x refresh schedules x hyper-schedule changes x 1-2 groups within the call bounds "
                    "(RefreshTiming, RefreshComplete, OncePerStep, StepCounter); R: TLC-simulated behaviours paired with random "
                    "hyperparameter draws (betas, beta3, epsilon, momentum, dampening, weight decay x mode, Nesterov, bias correction, every "
                    "grafting type, inverse-root override int / list, exponent multiplier, ignored dims, merge, orders 0..4) and compared "
                    "after every step, tensor by tensor (parameters, factor matrices, inverse roots, filtered gradient, momentum, grafting "
                    "accumulator, step) with a float64 closed-form reference whose control decisions come from the TLC states (relative 1e-7; direction and roots of plain Shampoo 1e-6; iterative solvers 1e-4; the update itself relative to its own size); "
                    "two-group behaviours replayed as separate optimizers (bitwise); dtype pairings as plumbing; T: traces validated by TLC")
    if tasks:
        g0 = tasks[0][0]["groups"][0]
        ctx.sample({"group0": {k: g0[k] for k in ("shapes", "maxdim", "merge", "freq", "start", "beta2", "eps", "graft", "override", "mult")},
                    "behaviour": [{k: e[k] for k in e if k not in ("obs", "outc")} for e in tasks[0][1]]})
    ctx.assume("float64 parameters and preconditioner_dtype for tight comparison; lr, bias corrections and the root exponent are "
               "single-precision numbers in the code and the reference mirrors exactly that (documented precision details)")
    ctx.assume("a numeric mutant whose effect is below 1e-7 relative (1e-6 for the Shampoo direction) at every sampled draw is not detectable")


def replay(ctx, data):
    sp.replay_file(ctx, data, owns, "update_rule")
