"""C04 — parameters without a gradient are untouched; state is never cross-wired."""
from __future__ import annotations

import copy
import random
import re

from harness import behaviours, family
from harness import replay as rp
from harness.drivers import shampoo_props as sp

OWN = re.compile(r"frame\.|trace\.(step|stepped|dMP|mP|mK|mG|mF|mM|active)$|spec\.(StepCounter|Frame|Alignment|ListLengthMismatch)"
                 r"|own_buffer_updated|untouched_after_abort|unidentified_matrix_call")
NUM = re.compile(r"\.value\.|\.shape\.")


def owns(clause, p=None):
    if clause.endswith("trace.raised"):
        return p is not None and "len" in str(p.get("observed"))     # a crash inside step(); tolerance logic is C13's
    return bool(OWN.search(clause)) or bool(NUM.search(clause))


def G(pOf, nf, **kw):
    d = dict(np=max(pOf), pOf=pOf, nf=nf, freq=2, start=2, tol=1, graft=True, kind="shampoo", hasFilt=True, hasMom=True, wd0=0)
    d.update(kw)
    return d


def make_groups(rng):
    t = rng.choice(["m2x3", "m2x3", "v2x3", "m3p", "m2x2", "ignall", "s0v", "rect", "many", "many", "m6p", "rem1"])
    gs = [family.draw_group(rng, t, filt=rng.random() < 0.8, mom=rng.random() < 0.8)]
    if rng.random() < 0.35:
        gs.append(family.draw_group(rng, rng.choice(["m2x2", "v2x3", "t3"])))
    return gs


def control(draw, beh, mine):
    """A numeric mismatch counts for C04 only if it depends on the gradient-presence pattern: the same run with every
    gradient present (same hyper changes, same outcomes) must agree with the reference.  Otherwise it is an arithmetic
    matter (C01's subject), not cross-wiring."""
    num = [p for p in mine if NUM.search(p["clause"])]
    if not num or len(num) < len(mine):
        return mine          # structural evidence (frame / lists / counters) stands on its own
    ab = sp.abstract_of(draw)
    full = []
    for e in beh:
        if e["ev"] == "Step":
            full.append({"ev": "Step", "present": [[True] * len(x) for x in e["present"]], "outc": e["outc"],
                         "obs": [{"has": False} for _ in e["present"]]})
        else:
            full.append(e)
    val = behaviours.validate([{"cfg": ab, "events": full}])[0]
    it = iter(val["exp"])
    beh2 = []
    for e in full:
        x = next(it)
        beh2.append(dict(e, obs=x.get("obs")) if e["ev"] == "Step" else e)
    mm, _ = rp.run_behaviour(draw, beh2)
    if any(NUM.search(m[1]) for m in mm):
        return []           # fails with all gradients present too: not a presence-pattern effect
    return mine


def run(ctx):
    quick = ctx.tier == "quick"
    rng = random.Random(ctx.seed * 7919 + 4)
    moves = [(1, "mom", 0), (1, "mom", 1), (1, "b1", 0), (1, "b1", 1)]
    mc = [("3 equal blocks of 2 params, momentum+filter scheduled to 0 and back, 4 calls", [G([1, 1, 2], [2, 2, 2])], 4, (), moves),
          ("3 params x 1 block, faults interleaved, 4 calls", [G([1, 2, 3], [1, 1, 1], freq=1, start=1)], 4, ("fail",), [(1, "mom", 0), (1, "mom", 1)]),
          ("2 groups, 3 calls", [G([1, 2], [2, 2]), G([1], [1], freq=1, start=1, hasMom=False)], 3, (), [(1, "mom", 0), (1, "mom", 1)])]
    if not quick:
        mc += [("3 equal blocks, 5 calls, all hyper moves", [G([1, 1, 2], [2, 2, 2])], 5, (), moves),
               ("3 params x 2 blocks each, 4 calls", [G([1, 1, 2, 2, 3, 3], [1, 1, 1, 1, 1, 1], freq=1, start=1)], 4, (), [(1, "mom", 0), (1, "mom", 1)]),
               ("3 params, faults, 5 calls", [G([1, 2, 3], [1, 1, 1], freq=1, start=1)], 5, ("fail", "nan"), [(1, "mom", 0), (1, "mom", 1)])]
    wit = [("stale momentum list", [G([1, 1, 2], [2, 2, 2])], 4, (), moves, ("RecompressOnlyIfNonZeroNow",))]
    sp.run_mc(ctx, mc, wit)
    tasks = sp.gen_tasks(ctx, rng, 10 if quick else 60, 12 if quick else 40, make_groups, 7, ("fail",), ("mom", "b1", "wd", "lr"))
    # bounded-exhaustive: every behaviour of depth 3 (4 thorough): three equal blocks of two params, momentum / beta1 set to 0 and back
    tasks += sp.exhaustive_tasks(ctx, rng, [family.draw_group(rng, "m2x3", kind="shampoo", filt=True, mom=True, freq=2, start=2, graft="adagrad")],
                                 3 if quick else 4, (), ("mom", "b1"))
    tasks += sp.exhaustive_tasks(ctx, rng, [family.draw_group(rng, "v3p", kind="shampoo", filt=True, mom=True, freq=1, start=1, graft="rmsprop")],
                                 3, (), ())
    sp.run_rt(ctx, tasks, owns, "mask_mechanism", control)
    sp.run_histories(ctx, rng, 24 if quick else 300, make_groups, 25 if quick else 40, ("fail",), ("mom", "b1", "wd"), owns, "mask_mechanism_long")
    # many distinct presence patterns in one run (six parameters: 64 patterns), long enough to return to early patterns after dozens of others
    sp.run_histories(ctx, rng, 6 if quick else 60, lambda r: [family.draw_group(r, "m6p", filt=True, mom=True)], 90 if quick else 150, (), (), owns,
                     "mask_mechanism_many_patterns", flip=0.9)
    # a group with more than 64 blocks whose pattern changes only among the last blocks
    sp.run_histories(ctx, rng, 3 if quick else 30, lambda r: [family.draw_group(r, "wide", filt=True, mom=True, freq=r.choice([1, 2]))],
                     8 if quick else 14, (), (), owns, "mask_mechanism_wide_group", flip=0.9)
    sp.run_repo_tests(ctx, owns, "mask_mechanism_repo_tests")
    ctx.put("distinct_nontrivial", sp.nontrivial_count(tasks))
    ctx.put("rule", "MC: every gradient-presence history x hyper schedule (momentum / beta1 set to 0 and back) x fault script within the "
                    "stated call bounds, invariants StepCounter / Frame / Alignment / no list-length crash; R: TLC-simulated behaviours "
                    "replayed into the real optimizer with bitwise before/after hashes of every tensor of every absent parameter and the "
                    "float64 reference on present ones (numeric mismatches count only if they vanish when every gradient is present); "
                    "T: observed traces (step counters, masked-list projections by tensor identity, exceptions) validated by TLC; "
                    "non-trivial = a behaviour with a mask change, a refresh or a fault")
    if tasks:
        ctx.sample({"draw_groups": [{k: g[k] for k in ("shapes", "maxdim", "kind", "freq", "start")} for g in tasks[0][0]["groups"]],
                    "behaviour": [{k: e[k] for k in e if k != "obs"} for e in tasks[0][1]]})
    ctx.assume("masked-list projections read private attributes; if one is missing that field is not compared (coverage note), never an alarm")
    ctx.assume("gradients are generic (random normal), so 'buffer changed' is expected for every active block")


def replay(ctx, data):
    sp.replay_file(ctx, data, owns, "mask_mechanism")
