"""C08 — fully_shard / hybrid-shard Shampoo equals serial Shampoo on local shards."""
from __future__ import annotations

import math
import random

from harness import family, tlc
from harness.drivers import C06, C07
from harness.drivers import dist_common as dc
from harness.drivers import shampoo_props as sp

ORACLE = r"""
---- MODULE Dim0Oracle ----
EXTENDS SplitRecovery, Json, IOUtils
Cases == JsonDeserialize(IOEnv.CASES)
ASSUME JsonSerialize(IOEnv.OUT, [i \in 1..Len(Cases) |-> [pieces |-> Dim0Pieces(Cases[i].shapes, Cases[i].S)]])
====
"""
FS_CFG = ("SPECIFICATION Spec\nCONSTANTS MaxParams = {p}\n MaxOrder = {o}\n MaxNumel = {n}\n MaxN = {k}\n"
          "INVARIANT InvDim0ExactlyOnce\nCHECK_DEADLOCK FALSE\n")
SHAPES = [[[4, 3], [5]], [[3, 4, 2]], [[7, 2], [3, 3], [4]], [[2, 3, 2, 2], [6]], [[5, 5]], [[6, 2], [2, 2, 3]], [[9], [4, 4]], [[3, 7], [1, 4]]]


def make_task(rng, kind):
    shapes = rng.choice(SHAPES)
    min_rows = min(s[0] for s in shapes)
    S = rng.choice([1, 2, 3, 4])
    family.TEMPLATES["_sh"] = dict(shapes=shapes, maxdim=rng.choice([2, 3, 4, 1024]), merge=rng.random() < 0.5, ignored=[])
    g = family.draw_group(rng, "_sh")
    if g["kind"] == "soap":
        g["method"] = "eigh"
    draw = family.make_draw(rng, [g], dtype="float32", pdtype="float32")
    masks, cur = [], [True] * len(shapes)
    for _ in range(rng.choice([3, 4])):
        if rng.random() < 0.35:
            i = rng.randrange(len(cur))
            cur[i] = not cur[i]
        masks.append(list(cur))
    t = {"kind": kind, "shapes": shapes, "S": S, "draw": draw, "masks": masks, "seed": rng.randrange(1 << 30),
         "zero_rows": rng.random() < 0.4}
    if kind == "fully" and not family.TEMPLATES["_sh"]["merge"] and rng.random() < 0.3:
        t["strided_local"] = True          # local shards that are not contiguous (no dimensions are merged, so no view is needed)
    r = rng.random()
    if r < 0.35:          # mixed-precision parameter groups, any order (a 16-bit parameter first included)
        t["dtypes"] = [rng.choice(["bfloat16", "float32", "float32", "float16"]) for _ in shapes]
    if kind == "hybrid":
        t["S"] = min(S, 3)
        t["R"] = rng.choice([1, 2, 2, 4]) if t["S"] <= 2 else rng.choice([1, 2])
        t["GS"] = rng.choice([d for d in (1, 2, 4) if t["R"] % d == 0])
        t["comm"] = rng.choice(["fp32", "default", "default", "bf16"])
        t["comm_params"] = rng.random() < 0.4
        if t["R"] > 1 and rng.random() < 0.4:
            rows = list(range(t["R"]))
            while rows == sorted(rows):
                rng.shuffle(rows)
            t["mesh_rows"] = rows
    return t


def make_permuted(rng):
    """hybrid shard on a mesh whose replicate dimension is not ascending, at least two trainers per group"""
    for _ in range(50):
        t = make_task(rng, "hybrid")
        if t["R"] >= 2:
            t["GS"] = rng.choice([d for d in (2, 4) if t["R"] % d == 0])
            rows = list(range(t["R"]))
            while rows == sorted(rows):
                rng.shuffle(rows)
            t["mesh_rows"] = rows
            return t
    return t


def attach_spec(tasks):
    exp, _ = tlc.oracle("Dim0Oracle", ORACLE, [{"shapes": t["shapes"], "S": t["S"]} for t in tasks], tag="C08-o")
    for t, e in zip(tasks, exp):
        t["pieces"] = [[[{"off": p["off"], "len": p["len"], "shp": list(p["shp"])} for p in (pp or [])] for pp in rank] for rank in e["pieces"]]
    return tasks


def run(ctx):
    quick = ctx.tier == "quick"
    rng = random.Random(ctx.seed * 7919 + 8)
    p, o, n, k = (2, 3, 12, 4) if quick else (3, 3, 16, 4)
    res = tlc.run("FlatShardsMC", (tlc.SPEC_DIR / "FlatShardsMC.tla").read_text(), FS_CFG.format(p=p, o=o, n=n, k=k), tag="C08-mc", timeout=3000)
    ctx.add_tlc(res, f"Dim0Pieces partition: params<={p} order<={o} numel<={n} shard ranks<={k}")
    if not res.ok:
        raise tlc.TLCMachineryError(f"Dim0Pieces fails Dim0ExactlyOnce: {res.violated}\n{res.stdout[-1500:]}")
    C07.mesh_mc(ctx, quick)
    for W, GS, owner, ns in [(2, 2, [0, 1, 0], 3)] + ([] if quick else [(2, 1, [0, 0, 0], 3), (4, 2, [0, 1, 0, 1], 2)]):
        r = C06.mc_dist(W, GS, owner, ns, (), ("SerialEquivalence", "ReplicaAgreement", "OwnerUnique"), ("NoRankLeftWaiting",))
        ctx.add_tlc(r, f"ShampooDist (one replicate column) R={W} GS={GS}")
        if not r.ok:
            raise tlc.TLCMachineryError(f"ShampooDist column model violates {r.violated}")
    tasks = attach_spec([make_task(rng, "fully") for _ in range(40 if quick else 400)] + [make_task(rng, "hybrid") for _ in range(30 if quick else 300)]
                        + [make_permuted(rng) for _ in range(6 if quick else 40)])
    tasks = [t for t in tasks if C07.usable(t)]
    results = sp.sim_map(dc.run_dtensor_task, tasks, lambda r: bool(r.get("crash") or r.get("verdict") or r.get("param_mismatch") or any((r.get("errors") or {}).values())))
    ctx.put("worlds_not_reproduced_on_rerun", sum(1 for r in results if r.get("_flaky_first_run")))
    # the filtered (non-empty) parameter list must be what block ids are indexed over: check keys are unique per rank
    for t, res in zip(tasks, results):
        for r, inf in res.get("info", {}).items():
            if len(set(inf["block_keys"])) != len(inf["block_keys"]) and len(t["shapes"]) == 1:
                ctx.violation(f"duplicate block keys on rank {r}: {inf['block_keys']}", {"kind": "block_keys"}, {"task": t})
    C07.evaluate(ctx, tasks, results, "C08")
    hist = {}
    for t in tasks:
        key = f"{t['kind']} S={t['S']}" + (f" R={t['R']} GS={t['GS']} {t['comm']}" if t["kind"] == "hybrid" else "")
        hist[key] = hist.get(key, 0) + 1
    ctx.put("configurations_run", hist)
    ctx.put("distinct_nontrivial", sum(1 for t in tasks if t["S"] > 1))
    ctx.put("tasks_with_empty_local_shards", sum(1 for t in tasks if any(len(pp) == 0 for rank in t["pieces"] for pp in rank)))
    ctx.put("rule", "MC: the dim-0 chunking (ceil(rows/S) rows per rank, trailing ranks possibly empty) partitions every parameter into one slab "
                    "per rank; ShampooDist for one replicate column; R: real DTensor parameters (distribute_tensor, Shard(0) resp. "
                    "[Replicate(), Shard(0)]) with DTensor gradients or None under FullyShardDistributor / HybridShardDistributor on simulated "
                    "ranks; oracle: the serial optimizer on the spec's local slabs as ordinary parameters (communicated quantity rounded for "
                    "hybrid), bitwise after every step on every rank; T: per-column gather logs validated by TLC; non-trivial = more than one shard rank")
    if tasks:
        ctx.sample({"kind": tasks[0]["kind"], "shapes": tasks[0]["shapes"], "S": tasks[0]["S"], "pieces": tasks[0]["pieces"]})
    ctx.assume("every shard rank holds at least one row of some parameter (the code asserts at least one block per rank)")


def replay(ctx, data):
    task = data["replay"]["task"]
    results = sp.pool_map(dc.run_dtensor_task, [task])
    C07.evaluate(ctx, [task], results, "C08")
