"""C11 — inverse roots are symmetric positive definite and finite on degenerate input (restricted claim: DESIGN §9)."""
from __future__ import annotations

import math
import random
from fractions import Fraction

import numpy as np
import torch

from harness.drivers import matrix_props as mp

F64 = torch.float64


def degenerate_cases(rng, count, sizes):
    cases = []
    for _ in range(count):
        n = rng.choice(sizes)
        kind = rng.choice(["negative", "negative", "zero", "rankdef", "repeated", "distinct", "graded"])
        path = rng.choice(["eigen", "eigen_stab"])
        dt = rng.choice(["float32", "float64"])
        scale = rng.choice([1e-6, 1.0, 1e6])
        eps = rng.choice([(1, 16), (1, 256), (1, 4096)] if dt == "float32" else [(1, 16), (1, 1024), (1, 2 ** 16)])
        rootfrac = rng.choice([Fraction(1), Fraction(2), Fraction(4), Fraction(8), Fraction(4, 3), Fraction(20, 11)])
        spec = mp.spectrum_class(rng, n, kind)
        cases.append({"mode": "root", "haspec": True, "path": path, "spec": [list(x) for x in spec], "eps": list(eps), "n": n, "kind": kind,
                      "dtype": dt, "scale": scale, "root": [rootfrac.numerator, rootfrac.denominator], "seed": rng.randrange(1 << 30),
                      "d": dict(numel1=(n == 1), ndim2=True, square=True, isdiag=False, rootpos=True, rootint=rootfrac.denominator == 1, cfg=path)})
    return cases


def check_case(ctx, c, e):
    from matrix_functions import matrix_inverse_root
    dt = {"float32": torch.float32, "float64": torch.float64}[c["dtype"]]
    u = torch.finfo(dt).eps
    gen = torch.Generator().manual_seed(c["seed"])
    n = c["n"]
    root = Fraction(*c["root"])
    A, q, lam = mp.build_matrix(c["spec"], c["scale"], n, gen, dt)
    eps = mp.to_float(c["eps"]) * c["scale"]
    cfg = mp.cfg_of(c["path"])
    X = matrix_inverse_root(A, root, cfg, epsilon=eps)
    Xd, Ad = X.to(F64), A.to(F64)
    probs = []
    if not bool(torch.isfinite(X).all()):
        probs.append(("finite", "all entries finite", "NaN/Inf"))
    else:
        nx = float(torch.linalg.norm(Xd))
        if n > 1:
            asym = float(torch.linalg.norm(Xd - Xd.T))
            if asym > 50 * n * u * nx:
                probs.append(("symmetric", f"||X - X^T|| <= {50 * n * u * nx:.3e}", f"{asym:.3e}"))
            ev = torch.linalg.eigvalsh((Xd + Xd.T) / 2)
            ub = eps ** (-1.0 / float(root))
            slack = 1 + 50 * n * u + 1e-6 * abs(math.log(eps))
            if float(ev.min()) <= 0:
                probs.append(("positive_definite", "lambda_min(X) > 0", f"{float(ev.min()):.3e}"))
            if float(ev.max()) > ub * slack:
                probs.append(("upper_bound", f"lambda_max(X) <= eps^(-1/r) = {ub:.6e}", f"{float(ev.max()):.6e}"))
            comm = float(torch.linalg.norm(Ad @ Xd - Xd @ Ad))
            cb = 200 * n * u * max(float(torch.linalg.norm(Ad)), eps) * nx
            if comm > cb:
                probs.append(("commutes", f"||AX - XA|| <= {cb:.3e}", f"{comm:.3e}"))
            # orthogonal equivariance  f(P A P^T) = P f(A) P^T
            P = mp.haar(n, gen)
            A2 = (P @ Ad @ P.T)
            A2 = ((A2 + A2.T) / 2).to(dt)
            X2 = matrix_inverse_root(A2, root, cfg, epsilon=eps).to(F64)
            want, lamr = mp.expected_from_reg(q, e["reg"], c["scale"], float(root))
            cond = float(lamr.max() / lamr.min())
            bound = mp.C_EIGEN * n * u * cond * 4
            if bound < 0.05:
                err = mp.rel(X2, P @ Xd @ P.T)
                if err > bound:
                    probs.append(("equivariance", f"|| f(PAP^T) - P f(A) P^T || / ||.|| <= {bound:.3e}", f"{err:.3e}"))
                err2 = mp.rel(Xd, want)
                if err2 > bound:
                    probs.append(("value", f"|| X - Q diag(Reg^(-1/r)) Q^T || / ||.|| <= {bound:.3e}", f"{err2:.3e}"))
        else:
            if float(Xd.reshape(-1)[0]) <= 0:
                probs.append(("positive_definite", "> 0", float(Xd.reshape(-1)[0])))
    for clause, want_, got in probs:
        ctx.violation(f"eigen inverse root on degenerate input ({c['kind']}, n={n}, {c['dtype']}, scale {c['scale']}, root {root}, path {c['path']}): "
                      f"{clause}: expected {want_}, observed {got}", {"kind": "degenerate_inverse_root", "clause": clause}, {"case": c})


def tiny_epsilon(ctx, rng, count):
    """epsilon > 0 far below the usual grid (down to the subnormal range of the dtype) on zero / tiny degenerate input: the result
    eps^(-1/r) is representable for r >= 2 and must come out finite, symmetric, positive definite and bounded by it."""
    from matrix_functions import matrix_inverse_root
    for _ in range(count):
        dt = rng.choice([torch.float32, torch.float64])
        eps = rng.choice([1e-30, 1e-38, 1e-40, 3e-42] if dt == torch.float32 else [1e-200, 1e-300, 1e-310, 1e-318])
        n = rng.choice([1, 2, 3, 5, 8])
        root = rng.choice([Fraction(2), Fraction(4), Fraction(8), Fraction(3), Fraction(8, 3)])
        kind = rng.choice(["zero", "rankdef", "negative"])
        gen = torch.Generator().manual_seed(rng.randrange(1 << 30))
        if kind == "zero":
            A = torch.zeros(n, n, dtype=dt)
        else:
            A, _, _ = mp.build_matrix(mp.spectrum_class(rng, n, kind), eps * rng.choice([0.01, 1.0, 100.0]), n, gen, dt)
        path = rng.choice(["eigen", "eigen_stab"])
        ctx.add("evaluations")
        X = matrix_inverse_root(A, root, mp.cfg_of(path), epsilon=eps)
        case = {"tiny": True, "dtype": str(dt), "eps": eps, "n": n, "root": str(root), "kind": kind, "path": path}
        eps_repr = float(torch.tensor(eps, dtype=dt))
        ub = eps_repr ** (-1.0 / float(root))
        probs = []
        if not bool(torch.isfinite(X).all()):
            probs.append(("finite", f"all entries finite (eps^(-1/r) = {ub:.3e} is representable)", "NaN/Inf"))
        else:
            ev = torch.linalg.eigvalsh(((X + X.T) / 2).to(F64)) if n > 1 else X.to(F64).reshape(-1)
            if float(ev.min()) <= 0:
                probs.append(("positive_definite", "lambda_min(X) > 0", f"{float(ev.min()):.3e}"))
            if float(ev.max()) > ub * 1.01:
                probs.append(("upper_bound", f"lambda_max(X) <= eps^(-1/r) = {ub:.6e}", f"{float(ev.max()):.6e}"))
        for clause, want_, got in probs:
            ctx.violation(f"eigen inverse root with tiny epsilon ({case}): {clause}: expected {want_}, observed {got}",
                          {"kind": "degenerate_inverse_root", "clause": clause}, {"tiny": case})
    ctx.put("tiny_epsilon_cases", count)


def known_inputs(ctx):
    """Regression input of D12: float32 rank-19 Gram matrix with dead coordinates on which torch.linalg.eigh returns NaN silently."""
    from matrix_functions import matrix_inverse_root
    from pathlib import Path
    A = torch.load(Path(__file__).resolve().parent.parent / "data" / "eigh_silent_nan_f32_64.pt", weights_only=True)
    for path in ("eigen", "eigen_stab"):
        for root, eps in ((Fraction(2), 1e-3), (Fraction(4), 1e-6), (Fraction(8, 3), 1e-2)):
            ctx.add("evaluations")
            X = matrix_inverse_root(A, root, mp.cfg_of(path), epsilon=eps).to(F64)
            bad = None
            if not bool(torch.isfinite(X).all()):
                bad = ("finite", "all entries finite", "NaN/Inf")
            else:
                ev = torch.linalg.eigvalsh((X + X.T) / 2)
                ub = eps ** (-1.0 / float(root))
                if float(ev.min()) <= 0 or float(ev.max()) > ub * 1.001:
                    bad = ("bounds", f"0 < eigenvalues <= eps^(-1/r) = {ub:.4e}", f"[{float(ev.min()):.3e}, {float(ev.max()):.4e}]")
            if bad:
                ctx.violation(f"eigen inverse root ({path}, root {root}, eps {eps}) on the float32 rank-19 matrix with dead coordinates "
                              f"(harness/data/eigh_silent_nan_f32_64.pt): {bad[0]}: expected {bad[1]}, observed {bad[2]}",
                              {"kind": "degenerate_inverse_root", "clause": bad[0]}, {"known_input": "eigh_silent_nan_f32_64"})


def rejection(ctx):
    from matrix_functions import matrix_inverse_root
    shapes = [(2, 3), (3, 2), (1, 2), (2, 1), (2,), (3,), (2, 2, 2), (1, 2, 2), (2, 2, 1), (1, 1, 2), (4, 1, 1, 1), (2, 3, 4), (4, 1), (1, 3, 3)]
    for shp in shapes:
        for cfgname, isdiag in [(c_, d_) for c_ in ("eigen", "eigen_stab", "newton", "higher") for d_ in (False, True)]:
            ctx.add("evaluations")
            try:
                matrix_inverse_root(torch.ones(shp), Fraction(2), mp.cfg_of(cfgname), epsilon=0.1, is_diagonal=isdiag)
                out = "returned"
            except ValueError:
                out = "ValueError"
            except Exception as ex:  # noqa
                out = type(ex).__name__
            if out != "ValueError":
                ctx.violation(f"matrix_inverse_root accepted / mis-rejected shape {shp} ({cfgname}, is_diagonal={isdiag}): {out}", {"kind": "shape_rejection", "observed": out}, {"shape": list(shp)})
    ctx.put("rejected_shapes", [list(s) for s in shapes])


def run(ctx):
    quick = ctx.tier == "quick"
    rng = random.Random(ctx.seed * 7919 + 11)
    mp.run_mc(ctx, quick)
    mp.check_dispatch(ctx)
    rejection(ctx)
    known_inputs(ctx)
    sizes = [1, 2, 3, 5, 8, 16, 32] if quick else [1, 2, 3, 4, 5, 8, 16, 32, 48, 64]
    cases = degenerate_cases(rng, 300 if quick else 4000, sizes)
    exp = mp.oracle_eval(cases, "C11-deg")
    classes = set()
    for c, e in zip(cases, exp):
        check_case(ctx, c, e)
        ctx.add("evaluations")
        classes.add((c["kind"], c["dtype"], c["path"], c["n"] > 8, c["scale"]))
    tiny_epsilon(ctx, rng, 120 if quick else 2000)
    ctx.put("traces_validated_against_impl", len(cases) + int(ctx.coverage.get("dispatch_descriptors", 0)))
    ctx.put("distinct_nontrivial", len(classes))
    ctx.put("rule", "MC: EigenPositivity / UpperBound by order reasoning on the transfer functions for every rational spectrum of a grid that "
                    "includes negative, zero and repeated eigenvalues; rejection table; O: concretised matrices n<=64 (32 quick), float32/64, "
                    "spectra with slightly negative / zero / rank-deficient / graded eigenvalues, scales 1e-6..1e6, roots incl. fractional: result "
                    "finite, symmetric, positive definite, lambda_max <= eps^(-1/r), commutes with the input, orthogonally equivariant, and "
                    "equal to Q diag(Reg^(-1/r)) Q^T with Reg from the spec; every non-square / non-2-D shape with more than one element raises "
                    "ValueError, with and without the diagonal flag; epsilon down to the subnormal range on zero / tiny degenerate input (roots >= 2): "
                    "finite, positive definite, bounded; distinct = (spectrum class, dtype, path, n>8, scale)")
    ctx.sample({"case": {k: cases[0][k] for k in ("path", "kind", "n", "dtype", "scale", "root", "eps", "spec")}, "regularised": exp[0]["reg"]})
    ctx.assume("epsilon is not below the dtype resolution of the scale (the property's precondition)")


def replay(ctx, data):
    r = data["replay"]
    if "known_input" in r:
        known_inputs(ctx)
    elif "tiny" in r:
        tiny_epsilon(ctx, random.Random(ctx.seed * 7919 + 11), 400)
    elif "case" in r:
        e = mp.oracle_eval([r["case"]], "C11-rep")[0]
        check_case(ctx, r["case"], e)
        ctx.add("evaluations")
    else:
        rejection(ctx)
