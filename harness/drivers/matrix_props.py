"""C10 / C11 / C12 — matrix_functions.py.

MC : MatrixFnMC (dispatch tables, transfer-function facts by order reasoning, solver control state machines)
O  : TLC evaluates dispatch outcome + regularised spectrum for every case class; the harness concretises
     A = Q diag(lambda) Q^T with exactly that spectrum and measures the real routine against Q diag(Reg^(-1/r)) Q^T
T  : return records of the iterative solvers validated by TLC (TerminalOK)
"""
from __future__ import annotations

import itertools
import math
import random
from fractions import Fraction

import numpy as np
import torch

from harness import tlc

F64 = torch.float64
MC_CFG = ("SPECIFICATION MSpec\nCONSTANTS MaxIter = {m}\n ErrMax = {e}\nINVARIANT FlagSound\nINVARIANT GuardSound\nINVARIANT Tf32Restored\n"
          "INVARIANT IterBound\nPROPERTY Terminates\n")
ORACLE = r"""
---- MODULE MatrixOracle ----
EXTENDS MatrixFn, Json, IOUtils
Cases == JsonDeserialize(IOEnv.CASES)
Spec(c) == [i \in 1..Len(c.spec) |-> <<c.spec[i][1], c.spec[i][2]>>]
\* the spectrum that is inverted is the one of the path the dispatch actually takes (a 1-element input never reaches a solver)
PathOf(c) == LET o == InverseRootDispatch(c.d) IN IF o \in Paths THEN o ELSE c.path
One(c) == CASE c.mode = "root" -> [outcome |-> InverseRootDispatch(c.d),
                                   reg |-> IF c.haspec THEN Regularised(PathOf(c), Spec(c), <<c.eps[1], c.eps[2]>>, <<c.rel[1], c.rel[2]>>) ELSE <<>>]
            [] c.mode = "eig"  -> [outcome |-> EigenvectorDispatch(c.d), reg |-> <<>>]
            [] c.mode = "term" -> [outcome |-> IF TerminalOK(c.rec) THEN "ok" ELSE "rejected", reg |-> <<>>]
ASSUME JsonSerialize(IOEnv.OUT, [i \in 1..Len(Cases) |-> One(Cases[i])])
====
"""
C_EIGEN, C_ITER = 10.0, 150.0      # frozen multiples of (n u cond + tol): 10x the worst ratio measured on the unchanged tree


def run_mc(ctx, quick):
    m, e = (3, 3) if quick else (5, 4)
    res = tlc.run("MatrixFnMC", (tlc.SPEC_DIR / "MatrixFnMC.tla").read_text(), MC_CFG.format(m=m, e=e), tag=f"{ctx.prop}-mc", timeout=1800)
    ctx.add_tlc(res, f"MatrixFnMC solver machines MaxIter={m} ErrMax={e}; transfer functions on a rational spectra grid; dispatch tables")
    if not res.ok:
        raise tlc.TLCMachineryError(f"MatrixFn spec fails: {res.violated} {res.errors}\n{res.stdout[-1500:]}")


def oracle_eval(cases, tag):
    for c in cases:
        c.setdefault("rel", [0, 1])
    out = []
    for i in range(0, len(cases), 2000):
        out += tlc.oracle("MatrixOracle", ORACLE, cases[i:i + 2000], tag=tag)[0]
    return out


def haar(n, gen):
    q, r = torch.linalg.qr(torch.randn(n, n, generator=gen, dtype=F64))
    return q * torch.sign(torch.diagonal(r))


def cfg_of(name, **kw):
    import matrix_functions_types as mt
    return {"eigen": lambda: mt.EigenConfig(), "eigen_stab": lambda: mt.EigenConfig(enhance_stability=True),
            "newton": lambda: mt.CoupledNewtonConfig(**kw), "higher": lambda: mt.CoupledHigherOrderConfig(**kw),
            "other": lambda: _Weird()}[name]()


class _Weird:
    pass


# ---- spectrum classes (dyadic rationals so that TLC's 32-bit integers suffice) ---------------------------------------------
def spectrum_class(rng, n, kind):
    if kind == "identity":
        return [(1, 1)] * n
    if kind == "distinct":
        vals = rng.sample([(k, 16) for k in range(2, 40)], n) if n <= 30 else [(2 + (7 * i) % 37 + i // 37 * 40, 16) for i in range(n)]
        return vals
    if kind == "repeated":
        return [(1, 1)] * (n // 2) + [(1, 4)] * (n - n // 2)
    if kind == "rankdef":
        return [(rng.randrange(2, 30), 16) for _ in range(n - n // 2)] + [(0, 1)] * (n // 2)
    if kind == "zero":
        return [(0, 1)] * n
    if kind == "graded":
        k = rng.choice([4, 8, 12])
        return [(1, 2 ** ((k * i) // max(1, n - 1))) for i in range(n)]
    if kind == "negative":   # slightly negative eigenvalues from round-off (C11)
        return [(-1, 1024)] + [(rng.randrange(1, 30), 16) for _ in range(n - 1)] if n > 1 else [(-1, 1024)]
    raise KeyError(kind)


def to_float(r):
    return r[0] / r[1]


def build_matrix(spec, scale, n, gen, dtype):
    lam = torch.tensor([to_float(x) for x in spec], dtype=F64) * scale
    q = haar(n, gen)
    a = (q * lam) @ q.T
    a = (a + a.T) / 2
    return a.to(dtype), q, lam


def expected_from_reg(q, reg, scale, root, exact_exponent=False):
    lam = torch.tensor([to_float(x) for x in reg], dtype=F64) * scale
    e = (-1.0 / root) if exact_exponent else float(np.float32(-1.0 / root))
    return (q * lam.pow(e)) @ q.T, lam


def rel(a, b):
    return float(torch.linalg.norm(a - b) / max(float(torch.linalg.norm(b)), 1e-300))


# ---- dispatch table (engine O) ---------------------------------------------------------------------------------------------
def dispatch_cases():
    out = []
    for numel1, ndim2, square, isdiag, cfg, rootpos, rootint in itertools.product(
            [False, True], [False, True], [False, True], [False, True], ["eigen", "eigen_stab", "newton", "higher", "other"],
            [False, True], [False, True]):
        if numel1 and not square:
            continue       # a 1-element tensor is 1 x 1 (x 1 ...)
        if not rootpos and not rootint:
            continue
        out.append({"mode": "root", "haspec": False, "path": "eigen", "spec": [[1, 1]], "eps": [1, 1],
                    "d": dict(numel1=numel1, ndim2=ndim2, square=square, isdiag=isdiag, cfg=cfg, rootpos=rootpos, rootint=rootint)})
    return out


def real_dispatch(d):
    """Build a concrete call matching the descriptor and classify what matrix_inverse_root does."""
    from matrix_functions import matrix_inverse_root
    import matrix_functions as mf
    if d["numel1"]:
        A = torch.tensor([[2.0]]) if d["ndim2"] else torch.tensor([[[2.0]]])
    elif not d["ndim2"]:
        A = torch.eye(2).reshape(2, 2, 1) if d["square"] else torch.ones(2, 3, 2)
        if d["square"]:
            A = torch.ones(2, 2, 2)
    elif not d["square"]:
        A = torch.ones(2, 3)
    else:
        A = torch.diag(torch.tensor([1.0, 2.0, 3.0])) if d["isdiag"] else torch.tensor([[2.0, 0.5, 0.0], [0.5, 2.0, 0.1], [0.0, 0.1, 1.0]])
    root = Fraction(2) if (d["rootpos"] and d["rootint"]) else (Fraction(3, 2) if d["rootpos"] else Fraction(-2))
    called = []
    patched = {}
    for name, label in (("_matrix_inverse_root_diagonal", "diagonal"), ("_matrix_inverse_root_eigen", "eigen"),
                        ("_matrix_inverse_root_newton", "newton"), ("_matrix_inverse_root_higher_order", "higher")):
        real = getattr(mf, name)
        patched[name] = real

        def wrapper(*a, _real=real, _label=label, **kw):
            called.append((_label, kw.get("enhance_stability", False)))
            return _real(*a, **kw)
        setattr(mf, name, wrapper)
    try:
        matrix_inverse_root(A, root, cfg_of(d["cfg"]), epsilon=0.1, is_diagonal=d["isdiag"])
        if not called:
            return "scalar"
        lab, stab = called[0]
        return "eigen_stab" if lab == "eigen" and stab else lab
    except NotImplementedError:
        return "NotImplementedError"
    except ValueError:
        if called and called[0][0] in ("newton", "higher"):
            return called[0][0]          # the dispatch reached the solver; what the solver does with the input is not dispatch
        return "ValueError"
    except Exception as ex:  # noqa
        if called:
            lab, stab = called[0]
            return "eigen_stab" if lab == "eigen" and stab else lab
        return type(ex).__name__
    finally:
        for name, real in patched.items():
            setattr(mf, name, real)


def check_dispatch(ctx):
    cases = dispatch_cases()
    exp = oracle_eval(cases, f"{ctx.prop}-disp")
    for c, e in zip(cases, exp):
        got = real_dispatch(c["d"])
        ctx.add("evaluations")
        if got != e["outcome"]:
            ctx.violation(f"matrix_inverse_root dispatch differs from MatrixFn.InverseRootDispatch on {c['d']}: expected {e['outcome']}, observed {got}",
                          {"kind": "dispatch", "expected": e["outcome"], "observed": got}, {"dispatch": c["d"]})
    ctx.put("dispatch_descriptors", len(cases))


# ---- accuracy (C10) ----------------------------------------------------------------------------------------------------------
def accuracy_cases(rng, n_cases, sizes, dtypes=("float32", "float64")):
    cases = []
    for _ in range(n_cases):
        n = rng.choice(sizes)
        kind = rng.choice(["identity", "distinct", "distinct", "repeated", "rankdef", "zero", "graded", "graded"])
        path = rng.choice(["eigen", "eigen", "eigen_stab", "newton", "higher", "diagonal", "scalar"])
        if path == "scalar":
            n = 1
        dt = rng.choice(dtypes)
        scale = rng.choice([1e-6, 1.0, 1.0, 1e6])
        eps = rng.choice([(1, 16), (1, 256), (1, 4096)] if dt == "float32" else [(1, 16), (1, 1024), (1, 2 ** 16)])
        root = rng.choice([1, 2, 3, 4, 5, 6, 6, 7, 8])       # 2 x tensor order (2, 4, 6, 8) and every other small integer
        mult = 1.0
        rootfrac = Fraction(root)
        if path in ("eigen", "eigen_stab", "higher") and rng.random() < 0.3:
            rootfrac = rng.choice([Fraction(4, 3), Fraction(8, 3), Fraction(20, 11)])
        spec = spectrum_class(rng, n, kind)
        rel = [0, 1]
        if path == "higher" and rng.random() < 0.5:
            # relative regularisation rel_epsilon * |A|_inf of the same order as the absolute one: max(., .) is what the spec adds
            rel = [eps[0] * rng.choice([1, 2, 4]), eps[1] * rng.choice([1, 2])]
        cases.append({"mode": "root", "haspec": True, "rel": rel, "path": path, "spec": [list(x) for x in spec], "eps": list(eps), "n": n, "kind": kind,
                      "dtype": dt, "scale": scale, "root": [rootfrac.numerator, rootfrac.denominator], "seed": rng.randrange(1 << 30),
                      "d": dict(numel1=(n == 1), ndim2=True, square=True, isdiag=(path == "diagonal"), rootpos=True,
                                rootint=rootfrac.denominator == 1,
                                cfg={"diagonal": "eigen", "scalar": "eigen"}.get(path, path))})
    return cases


def run_accuracy_case(c, e):
    """Returns (skipped, problems)."""
    from matrix_functions import matrix_inverse_root
    dt = {"float32": torch.float32, "float64": torch.float64}[c["dtype"]]
    u = torch.finfo(dt).eps
    gen = torch.Generator().manual_seed(c["seed"])
    n = c["n"]
    root = Fraction(*c["root"])
    probs = []
    if c["path"] == "diagonal":
        lam = torch.tensor([to_float(x) for x in c["spec"]], dtype=F64) * c["scale"]
        A = torch.diag(lam).to(dt)
        q = torch.eye(n, dtype=F64)
    else:
        A, q, lam = build_matrix(c["spec"], c["scale"], n, gen, dt)
    eps = to_float(c["eps"]) * c["scale"]
    if c["path"] == "newton" and root.denominator != 1:
        return True, []
    if e["outcome"] not in ("scalar", "diagonal", "eigen", "eigen_stab", "newton", "higher"):
        return True, []
    kw = {}
    if c.get("rel", [0, 1])[0]:
        norm = float(torch.linalg.matrix_norm(A, torch.inf))
        if norm <= 0:
            return True, []
        kw["rel_epsilon"] = to_float(c["rel"]) * c["scale"] / norm       # rel_epsilon * |A|_inf = the dyadic value the spec was given (to 1 ulp)
    try:
        X = matrix_inverse_root(A, root, cfg_of(c["d"]["cfg"], **kw), epsilon=eps, is_diagonal=c["d"]["isdiag"]).to(F64)
    except ArithmeticError:
        return True, []     # the higher-order solver is allowed to raise (C10: "raises rather than return ...")
    want32, lamr = expected_from_reg(q, e["reg"], c["scale"], float(root))
    want64, _ = expected_from_reg(q, e["reg"], c["scale"], float(root), exact_exponent=True)
    cond = float(lamr.max() / lamr.min())
    tol = {"newton": 1e-6, "higher": 1e-8}.get(c["path"], 0.0)
    base = n * u * cond + tol
    cmul = C_ITER if c["path"] in ("newton", "higher") else C_EIGEN
    bound = cmul * base
    if bound > 0.05:
        return True, []
    err = min(rel(X, want32), rel(X, want64))
    if not (err <= bound) or not math.isfinite(err):
        probs.append(("accuracy", f"<= {bound:.3e} (n={n}, cond={cond:.3g}, {c['dtype']}, path {c['path']}, root {root})", f"{err:.3e}"))
    return False, probs


# ---- solver return records (engine T) ---------------------------------------------------------------------------------------
def solver_records(rng, count):
    import matrix_functions as mf
    recs = []
    gen = torch.Generator().manual_seed(rng.randrange(1 << 30))
    for _ in range(count):
        n = rng.choice([2, 3, 5, 8, 16])
        dt = rng.choice([torch.float32, torch.float64])
        if rng.random() < 0.5:
            # badly conditioned dense input (cond 1e4 .. 1e9): where the solvers' flags and guard matter
            lam = torch.logspace(0, -rng.choice([4, 5, 6, 7, 8, 9]), n, dtype=F64)
            qh = haar(n, gen)
            A = (qh * lam) @ qh.T
            A = ((A + A.T) / 2).to(dt)
        else:
            spec = spectrum_class(rng, n, rng.choice(["distinct", "repeated", "rankdef", "graded", "zero"]))
            A, q, lam = build_matrix(spec, rng.choice([1e-3, 1.0, 1e3]), n, gen, dt)
        solver = rng.choice(["newton", "higher"])
        maxit = rng.choice([1, 2, 3, 5, 20, 100])
        tol = rng.choice([1e-2, 1e-4, 1e-6, 1e-8, 1e-12, 0.0])
        eps = rng.choice([1e-12, 1e-6, 1e-4, 1e-1])      # epsilon > 0 is the documented domain (a zero matrix with epsilon 0 makes the residual NaN)
        before = torch.backends.cuda.matmul.allow_tf32
        flip = rng.random() < 0.5
        torch.backends.cuda.matmul.allow_tf32 = flip
        rec = {"solver": solver, "max": maxit, "tf32_before": flip}
        try:
            if solver == "newton":
                X, M, flag, it, err = mf._matrix_inverse_root_newton(A, rng.choice([1, 2, 4]), epsilon=eps, max_iterations=maxit, tolerance=tol)
                resid = float(torch.dist(M, torch.eye(n, dtype=dt), p=torch.inf))
                rec.update(result="returned", flag=flag.name, it=int(it), err_le_tol=bool(resid <= tol), true_le_guard=True,
                           finite=bool(torch.isfinite(X).all()), err_nan=bool(resid != resid))
            else:
                root = rng.choice([Fraction(2), Fraction(4), Fraction(4, 3)])
                X, M, flag, it, terr = mf._matrix_inverse_root_higher_order(A, root, abs_epsilon=eps, max_iterations=maxit, tolerance=tol,
                                                                             order=rng.choice([2, 3, 4]))
                resid = float(torch.linalg.vector_norm(M - torch.eye(n, dtype=dt), torch.inf))
                # the guard, recomputed by the harness from the returned X (before powering only when the root is an integer)
                guard_ok = float(terr) <= 0.1
                if root.denominator == 1 and bool(torch.isfinite(X).all()):
                    ridge = A + eps * torch.eye(n, dtype=dt)
                    mine = float(torch.linalg.vector_norm(ridge @ torch.linalg.matrix_power(X, root.numerator) - torch.eye(n, dtype=dt), torch.inf))
                    guard_ok = guard_ok and mine <= 0.1 * 1.5
                rec.update(result="returned", flag=flag.name, it=int(it), err_le_tol=bool(resid <= tol), true_le_guard=bool(guard_ok),
                           finite=bool(torch.isfinite(X).all()), err_nan=bool(resid != resid))
        except ArithmeticError:
            rec.update(result="ArithmeticError", flag="none", it=0, err_le_tol=False, true_le_guard=False, finite=False, err_nan=False)
        except Exception as ex:  # noqa
            rec.update(result=type(ex).__name__, flag="none", it=0, err_le_tol=False, true_le_guard=False, finite=False, err_nan=False)
        rec["tf32_after"] = bool(torch.backends.cuda.matmul.allow_tf32)
        torch.backends.cuda.matmul.allow_tf32 = before
        recs.append(rec)
    return recs


def check_solver_records(ctx, rng, count):
    recs = solver_records(rng, count)
    cases = [{"mode": "term", "haspec": False, "path": "eigen", "spec": [[1, 1]], "eps": [1, 1], "d": {}, "rec": r} for r in recs]
    exp = oracle_eval(cases, f"{ctx.prop}-term")
    flags = {}
    for r, e in zip(recs, exp):
        ctx.add("evaluations")
        ctx.add("traces_validated_against_impl")
        flags[(r["solver"], r["result"], r["flag"])] = flags.get((r["solver"], r["result"], r["flag"]), 0) + 1
        if e["outcome"] != "ok":
            ctx.violation(f"solver return record is not a terminal state of the MatrixFn state machine: {r}",
                          {"kind": "solver_terminal", "solver": r["solver"], "flag": r["flag"]}, {"record": r})
    ctx.put("solver_outcomes", {f"{k[0]}:{k[1]}:{k[2]}": v for k, v in flags.items()})
