"""C18 — a PT2-compiled step computes the same update as the eager step (backends eager / aot_eager, CPU)."""
from __future__ import annotations

import copy
import random

import torch

from harness import behaviours, family, realopt
from harness import replay as rp
from harness.drivers import shampoo_props as sp
from harness.drivers.C09 import full_snapshot


def make_groups(rng):
    t = rng.choice(["m2x3", "v2x3", "m2x2", "t3", "s0v", "rect", "ign0", "fuse"])
    gs = [family.draw_group(rng, t)]
    if rng.random() < 0.6:          # learning rates that float32 cannot represent exactly (the comparison here is bitwise, eager vs compiled)
        gs[0]["lr"], gs[0]["keep_lr"] = [0.0, rng.choice([0.01, 0.3, 0.003]), rng.choice([0.1, 0.07])], True
    if rng.random() < 0.4:
        gs.append(family.draw_group(rng, rng.choice(["m2x2", "v2x3"])))
        if rng.random() < 0.5:          # groups commonly share one learning-rate schedule / weight decay
            gs[1]["lr"], gs[1]["lr0"] = list(gs[0]["lr"]), gs[0]["lr0"]
            gs[1]["wd"], gs[1]["wd0"] = list(gs[0]["wd"]), gs[0]["wd0"]
            gs[1]["shared_hyper"] = True
    return gs


def beyond_rounding(eager, comp, keys):
    """Of the entries whose bits differ, those that differ by more than a few dozen units in the last place.  The captured graph may
    associate a scalar factor differently (value * g * g on a 0-D block came out 1 ulp apart with the "eager" backend): that is the
    backend's arithmetic, not a different update."""
    out = []
    for key in keys:
        if key.startswith("step"):
            out.append(key)
            continue
        gi = int(key[1:key.index(".")])
        rest = key[key.index(".") + 1:]
        if rest.startswith("p"):
            a, b = eager.params[gi][int(rest[1:])], comp.params[gi][int(rest[1:])]
        else:
            bno, name = rest[1:].split(".", 1)
            a = realopt.block_state_tensors(eager.opt, gi).get((int(bno), name))
            b = realopt.block_state_tensors(comp.opt, gi).get((int(bno), name))
        if a is None or b is None or a.shape != b.shape or a.dtype != b.dtype:
            out.append(key)
            continue
        a, b = a.detach(), b.detach()
        if not a.dtype.is_floating_point:
            out.append(key)
            continue
        ulp = torch.finfo(a.dtype).eps
        af, bf = a.to(torch.float64), b.to(torch.float64)
        if not bool(((af - bf).abs() <= 64 * ulp * torch.maximum(af.abs(), bf.abs()) + 1e-300).all()):
            out.append(key)
    return out


def pt2_task(args):
    import logging
    import torch._dynamo as dynamo
    logging.disable(logging.WARNING)
    torch.set_num_threads(1)
    draw, beh, backend, dyn = args
    try:
        from torch._dynamo.utils import counters
        from distributed_shampoo.shampoo_types import ShampooPT2CompileConfig
        dynamo.reset()
        dynamo.config.cache_size_limit = 256
        counters.clear()
        eager = rp.Runner(copy.deepcopy(draw), numeric=False)
        comp = rp.Runner(copy.deepcopy(draw), numeric=False,
                         pt2=ShampooPT2CompileConfig(pytorch_compile_backend=backend, enable_shampoo_pt2_dynamic_shape=dyn))
        mm = []
        for i, ev in enumerate(beh):
            em = eager.do_event(ev)
            if em is not None:          # SetHyper / Save / Load (into the live optimizers) on both
                cm = comp.do_event(ev)
                if bool(em) != bool(cm) or (ev["ev"] == "Load" and full_snapshot(eager) != full_snapshot(comp)):
                    mm.append((i + 1, f"pt2.{backend}.dyn{dyn}.{ev['ev'].lower()}", f"as the eager optimizer: {em}", f"{cm}"))
                    break
                continue
            eager.do_step(ev["present"], ev["outc"])
            comp.do_step(ev["present"], ev["outc"])
            a, b = full_snapshot(eager), full_snapshot(comp)
            diff = beyond_rounding(eager, comp, sorted(k for k in a if a[k] != b.get(k))) if a != b else []
            if diff:
                mm.append((i + 1, f"pt2.{backend}.dyn{dyn}.state", "equal to the eager optimizer (bits, or within 64 ulp)", f"differs in {diff[:4]}"))
                break
            ra = [o.get("raised") for o in eager.trace[-1]["obs"]]
            rb = [o.get("raised") for o in comp.trace[-1]["obs"]]
            if ra != rb:
                mm.append((i + 1, f"pt2.{backend}.dyn{dyn}.raised", ra, rb))
                break
        frames = int(counters["frames"]["ok"]) if "frames" in counters else 0
        return mm, {"cfg": comp.abstract, "events": comp.trace}, None, frames
    except Exception:
        import traceback
        return [], None, traceback.format_exc(), 0


def rollback_score(beh):
    """number of Loads that restore a checkpoint taken at an EARLIER step count and are followed by a step"""
    kinds = [e["ev"] for e in beh]
    score, saved_at, steps = 0, None, 0
    for i, k in enumerate(kinds):
        if k == "Step":
            steps += 1
        elif k == "Save":
            saved_at = steps
        elif k == "Load" and saved_at is not None and steps > saved_at and "Step" in kinds[i + 1:]:
            score += 1
            steps = saved_at
    return score


def edges(beh):
    out = set()
    prev = {}
    hyper = False
    for ev in beh:
        if ev["ev"] != "Step":
            hyper = True
            continue
        for gi, ob in enumerate(ev["obs"]):
            if not ob.get("reached"):
                continue
            sel = tuple(ob["active"])
            out.add((ob["stepped"], ob.get("usegraft"), ob.get("refresh"), sel != prev.get(gi), hyper))
            prev[gi] = sel
        hyper = False
    return out


def owns(clause, p=None):
    return clause.startswith("pt2.") or ".trace." in clause


def run(ctx):
    quick = ctx.tier == "quick"
    rng = random.Random(ctx.seed * 7919 + 18)
    tasks = sp.gen_tasks(ctx, rng, 8 if quick else 40, 3 if quick else 8, make_groups, 7, ("fail",), ("mom", "wd", "lr", "b1", "freq"))
    # a scheduler over two groups that share one learning-rate table (lr moves only, for one group or for both at once)
    def shared_lr(r):
        gs = [family.draw_group(r, r.choice(["m2x2", "v2x3", "s0v"])), family.draw_group(r, r.choice(["m2x2", "v2x3"]))]
        gs[1]["lr"], gs[1]["lr0"], gs[1]["shared_hyper"] = list(gs[0]["lr"]), gs[0]["lr0"], True
        gs[1]["wd"], gs[1]["wd0"] = list(gs[0]["wd"]), gs[0]["wd0"]
        return gs
    tasks += sp.gen_tasks(ctx, rng, 3 if quick else 12, 4 if quick else 10, shared_lr, 7, (), ("lr",))
    # checkpoints taken from and loaded into the LIVE optimizers (rollback / reload between compiled steps); behaviours that
    # really roll back (Save, then a step, then Load, then a step) are preferred
    cand = sp.gen_tasks(ctx, rng, 8 if quick else 30, 30 if quick else 60, make_groups, 8, (), ("wd", "lr", "freq"), ckpt=True)
    cand.sort(key=lambda t: -rollback_score(t[1]))
    n_ck = 24 if quick else 200
    tasks += cand[:n_ck]
    ctx.put("rollback_behaviours", sum(1 for t in cand[:n_ck] if rollback_score(t[1]) > 0))
    modes = [("eager", False), ("aot_eager", False), ("eager", True), ("aot_eager", None)]
    ptasks = []
    for i, (d, beh, _) in enumerate(tasks):
        for m in (modes if not quick else [modes[i % 2], modes[2 + i % 2]]):
            ptasks.append((d, beh, m[0], m[1]))
    res4 = sp.pool_map(pt2_task, ptasks)
    res = [(a, b, c) for a, b, c, _ in res4]
    covered = sum(1 for x in res4 if x[3] > 0)
    not_covered = sum(1 for x in res4 if x[3] == 0 and x[2] is None)
    traces = [tr for (_, tr, err) in res]
    idx = [i for i, tr in enumerate(traces) if tr is not None]
    vals = behaviours.validate([traces[i] for i in idx]) if idx else []
    validated = [None] * len(ptasks)
    for i, v in zip(idx, vals):
        validated[i] = v
    sp.collect(ctx, [(d, b, None) for d, b, _, _ in ptasks], res, validated, owns, "pt2")
    if covered == 0:
        raise RuntimeError("vacuous: dynamo compiled no frame in any run")
    es = set()
    for _, beh, _ in tasks:
        es |= edges(beh)
    ctx.put("programs", covered)
    ctx.put("programs_not_compiled", not_covered)
    ctx.put("disagreements_checked", sum(len([e for e in b if e["ev"] == "Step"]) for _, b, _, _ in ptasks))
    ctx.put("edge_classes_covered", sorted(map(str, es)))
    ctx.add("traces_validated_against_impl", len(idx))
    ctx.put("distinct_nontrivial", sp.nontrivial_count(tasks))
    ctx.put("rule", "each TLC-simulated behaviour (warm-up/preconditioned switch, refresh steps, gradient-presence changes that force "
                    "recompilation, tolerated failures, hyper changes incl. precondition_frequency, Save / Load of a checkpoint into the live optimizer) is run on an eager optimizer and on optimizers compiled with backend "
                    "eager / aot_eager in static, dynamic and auto-dynamic mode; parameters and every state tensor are compared after every step "
                    "(bits; entries whose bits differ must agree to 64 units in the last place: a 1-ulp reassociation compounds over the steps of a run); a run counts as a program only if dynamo reports compiled frames; the compiled run's trace is validated by TLC; "
                    "edge class = (stepped, use-graft, refresh, selector changed, hyper changed)")
    if ptasks:
        ctx.sample({"backend": ptasks[0][2], "dynamic": ptasks[0][3], "groups": [{k: g[k] for k in ("shapes", "kind", "graft", "freq", "start")} for g in ptasks[0][0]["groups"]],
                    "masks": [e["present"] for e in ptasks[0][1] if e["ev"] == "Step"]})
    ctx.assume("CPU only; inductor and CUDA are not exercised (the property names the eager and aot_eager backends)")


def replay(ctx, data):
    r = data["replay"]
    res4 = [pt2_task((r["draw"], r["behaviour"], b, d)) for b, d in (("eager", False), ("aot_eager", False))]
    sp.collect(ctx, [(r["draw"], r["behaviour"], None)] * 2, [(a, b, c) for a, b, c, _ in res4], [None, None], owns, "pt2")
    ctx.put("programs", 2)
    ctx.put("disagreements_checked", 2)
