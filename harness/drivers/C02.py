"""C02 — warm-up equals the grafted torch.optim optimizer; afterwards the grafted step norm is kept."""
from __future__ import annotations

import copy
import math
import random
import re

import torch

from harness import family, realopt
from harness import replay as rp
from harness.drivers import shampoo_props as sp

OWN = re.compile(r"torch_optim|graft_norm|graft_parallel|trace\.usegraft$")
DY = [0.5, 0.75, 0.875]


def owns(clause, p=None):
    return bool(OWN.search(clause))


def G(pOf, nf, **kw):
    d = dict(np=max(pOf), pOf=pOf, nf=nf, freq=1, start=3, tol=1, graft=True, kind="shampoo", hasFilt=True, hasMom=False, wd0=0)
    d.update(kw)
    return d


SHAPES = [dict(shapes=[[4, 2], [3]], maxdim=2, merge=False), dict(shapes=[[4, 3]], maxdim=1, merge=False),
          dict(shapes=[[2, 3, 2]], maxdim=3, merge=True), dict(shapes=[[5, 3], [2, 2]], maxdim=1024, merge=True),
          dict(shapes=[[2, 2, 2, 2]], maxdim=2, merge=False), dict(shapes=[[6], [2, 3]], maxdim=4, merge=True),
          dict(shapes=[[3, 1, 4]], maxdim=3, merge=True), dict(shapes=[[7]], maxdim=3, merge=False)]


def make_group(rng, gtype=None):
    gtype = gtype or rng.choice(["sgd", "adagrad", "rmsprop", "adam", "adamw"])
    t = copy.deepcopy(rng.choice(SHAPES))
    start = rng.choice([2, 3, 4, 5, 6])
    freq = rng.choice([f for f in (1, 2, 3) if f <= start])
    lr = rng.choice(family.DYADIC_LR)
    wd = rng.choice([0.0, 0.125, 0.25])
    g = dict(t, ignored=[], freq=freq, start=start, tol=3, kind="shampoo", method="eigen", lr=[0.0, lr, lr], wd=[0.0, wd or 0.125],
             wd0=1 if wd else 0, lr0=1, beta2=rng.choice(DY + [1.0]), beta3=-1.0, eps=1e-6, dampening=0.0, override=0, mult=1.0,
             mom=[0.0, 0.5, 0.75], b1=[0.0, 0.5, 0.75], mom0=0, b10=0, nesterov=False, bias_corr=True, decoupled=False, gtype=gtype)
    if gtype == "sgd":
        g["mom0"] = rng.choice([0, 1, 2])
        g["nesterov"] = g["mom0"] != 0 and rng.random() < 0.5
        g["graft"] = {"type": "sgd", "eps": 1e-3, "beta2": 1.0}
    elif gtype == "adagrad":
        g["graft"] = {"type": "adagrad", "eps": rng.choice([1e-3, 1e-2, 0.125]), "beta2": 1.0}
    elif gtype == "rmsprop":
        g["graft"] = {"type": "rmsprop", "eps": rng.choice([1e-3, 1e-2, 0.125]), "beta2": rng.choice(DY)}
    else:
        g["b10"] = rng.choice([1, 2])
        g["graft"] = {"type": "adam", "eps": rng.choice([1e-3, 1e-2, 0.125]), "beta2": rng.choice(DY)}
        g["decoupled"] = gtype == "adamw"
        # explicit: an unset beta3 of a non-first group inherits the OPTIMIZER-level resolved value (group 0's beta1),
        # which is documented behaviour (C01) but not Adam
        g["beta3"] = g["b1"][g["b10"]]
    return g


def make_groups(rng):
    gs = [make_group(rng)]
    if rng.random() < 0.3:
        gs.append(make_group(rng))
    return gs


def torch_twin(draw, params):
    groups = []
    classes = set()
    for g, ps in zip(draw["groups"], params):
        lr, wd = g["lr"][1], g["wd"][g["wd0"]]
        twin = [torch.nn.Parameter(p.detach().clone()) for p in ps]
        gt = g["gtype"]
        if gt == "sgd":
            groups.append((torch.optim.SGD, dict(params=twin, lr=lr, momentum=g["mom"][g["mom0"]], dampening=0.0, nesterov=g["nesterov"], weight_decay=wd)))
        elif gt == "adagrad":
            groups.append((torch.optim.Adagrad, dict(params=twin, lr=lr, eps=g["graft"]["eps"], weight_decay=wd, lr_decay=0.0, initial_accumulator_value=0.0)))
        elif gt == "rmsprop":
            groups.append((torch.optim.RMSprop, dict(params=twin, lr=lr, alpha=g["graft"]["beta2"], eps=g["graft"]["eps"], weight_decay=wd)))
        elif gt == "adam":
            groups.append((torch.optim.Adam, dict(params=twin, lr=lr, betas=(g["b1"][g["b10"]], g["graft"]["beta2"]), eps=g["graft"]["eps"], weight_decay=wd)))
        else:
            groups.append((torch.optim.AdamW, dict(params=twin, lr=lr, betas=(g["b1"][g["b10"]], g["graft"]["beta2"]), eps=g["graft"]["eps"], weight_decay=wd)))
    opts = [cls([{k: v for k, v in kw.items()}], **{k: v for k, v in kw.items() if k != "params"}) for cls, kw in groups]
    return opts, [kw["params"] for _, kw in groups]


def adam_comparable(beh, gi):
    """own step count == group step count for every parameter that ever receives a gradient"""
    sets = {tuple(e["present"][gi]) for e in beh if e["ev"] == "Step" and any(e["present"][gi])}
    return len(sets) <= 1


def warmup_task(args):
    import logging
    logging.disable(logging.WARNING)
    torch.set_num_threads(1)
    draw, beh = args
    try:
        r = rp.Runner(draw, numeric=True)
        twins, tparams = torch_twin(draw, r.params)
        mm = []
        compared = 0
        live = [True] * len(draw["groups"])
        for gi, g in enumerate(draw["groups"]):
            if g["gtype"] in ("adam", "adamw") and not adam_comparable(beh, gi):
                live[gi] = False
        for i, ev in enumerate(beh):
            if ev["ev"] != "Step":
                continue
            before = [[p.detach().clone() for p in ps] for ps in r.params]
            m = r.do_step(ev["present"], ev["outc"], expected=ev["obs"])
            mm += [(i + 1,) + tuple(x) for x in m if owns(x[0])]
            grads = r.make_grads(ev["present"], ev["outc"])
            for gi, g in enumerate(draw["groups"]):
                ob = ev["obs"][gi]
                if not ob.get("stepped"):
                    continue
                if ob["usegraft"] and live[gi]:
                    for tp, gr in zip(tparams[gi], grads[gi]):
                        tp.grad = None if gr is None else gr.clone()
                    twins[gi].step()
                    for pi, (tp, p) in enumerate(zip(tparams[gi], r.params[gi])):
                        err = float((tp.detach() - p.detach()).abs().max()) if p.numel() else 0.0
                        scale = max(float(tp.detach().abs().max()) if p.numel() else 0.0, 1e-30)
                        compared += 1
                        # float64: exact re-association of dyadic arithmetic; float32: rounding of two formulations of the same recurrence
                        if err > (1e-12 if draw["dtype"] == "float64" else 1e-4) * scale:
                            mm.append((i + 1, f"g{gi+1}.torch_optim.{g['gtype']}.p{pi}", f"trajectory of torch.optim (max|.|={scale:.4g})", f"abs err {err:.3e}"))
                elif not ob["usegraft"]:
                    live[gi] = False
                    # after the switch: each block's step has the grafted method's norm and the Shampoo direction
                    hy = r.concrete_hy(gi)
                    if hy["mom"] == 0.0 and hy["wd"] == 0.0 and r.numeric:
                        ref = r.refs[gi]
                        lay = realopt.block_layout(r.opt, gi)
                        for b in ob["active"]:
                            meta = r.meta[gi][b - 1]
                            sl = tuple(slice(s, s + l) for s, l in meta["slices"])
                            delta = (r.params[gi][meta["param"]].detach() - before[gi][meta["param"]]).view(meta["merged"])[sl]
                            # the grafted direction recomputed from the REAL optimizer state (closed form)
                            st = realopt.block_state_tensors(r.opt, gi)
                            if (b, "filt") in st:
                                fb = st[(b, "filt")].detach().to(torch.float64)
                                if g["bias_corr"]:
                                    from harness.refopt import bc_pow
                                    fb = fb / bc_pow(1.0, hy["beta1"], ob["step"] - 1, hy["beta3"])
                            else:
                                fb = ref.grad_block(grads[gi], b - 1)
                            if (b, "graft") in st:
                                gd = fb / (torch.sqrt(st[(b, "graft")].detach().to(torch.float64) / ref.gbc2) + g["graft"]["eps"])
                            else:
                                gd = fb
                            want = float(rp.refopt.f32(hy["lr"]) * torch.linalg.norm(gd))
                            got = float(torch.linalg.norm(delta))
                            sdir = ref.precond(ref.blocks[b - 1], fb)
                            if float(torch.linalg.norm(sdir)) > 1e-12:
                                # delta is a difference of stored parameters: absolute noise eps*|param| per element; the code adds
                                # 1e-16 to the Shampoo norm before dividing
                                pblk = r.params[gi][meta["param"]].detach().view(meta["merged"])[sl]
                                noise = 1e-15 * math.sqrt(max(pblk.numel(), 1)) * float(pblk.abs().max())
                                if abs(got - want) > (1e-9 + 4e-16 / float(torch.linalg.norm(sdir))) * max(want, 1e-30) + noise:
                                    mm.append((i + 1, f"g{gi+1}.graft_norm.b{b}", f"||delta|| = lr*||graft dir|| = {want:.6g}", f"{got:.6g}"))
                                cos = float((delta.reshape(-1) @ sdir.reshape(-1)) / (torch.linalg.norm(delta) * torch.linalg.norm(sdir) + 1e-300))
                                if got > 0 and abs(cos + 1.0) > 1e-9 + 2 * (noise / got) ** 2 + 2 * noise / got * 1e-3:
                                    mm.append((i + 1, f"g{gi+1}.graft_parallel.b{b}", "delta anti-parallel to the Shampoo direction", f"cos={cos:.12f}"))
            if mm:
                break
        return mm, {"cfg": r.abstract, "events": r.trace}, None, compared
    except Exception:
        import traceback
        return [], None, traceback.format_exc(), 0


def run(ctx):
    quick = ctx.tier == "quick"
    rng = random.Random(ctx.seed * 7919 + 2)
    mc = [("graft, freq 1 start 3, 2 params, 5 calls", [G([1, 2], [2, 1])], 5, (), ()),
          ("graft, freq 2 start 4, blocked param, 6 calls", [G([1, 1, 2], [1, 1, 1], freq=2, start=4)], 6, (), ())]
    if not quick:
        mc += [("graft, start 5, 3 params, 7 calls", [G([1, 2, 3], [1, 1, 1], start=5)], 7, (), ()),
               ("2 groups graft, start 2/3, 5 calls", [G([1], [2], start=2), G([1, 2], [1, 1], start=3)], 5, (), ())]
    sp.run_mc(ctx, mc, [])
    tasks = sp.gen_tasks(ctx, rng, 16 if quick else 100, 12 if quick else 30, make_groups, 8, (), (), per_beh_redraw=False)
    # bounded-exhaustive: every gradient-presence history of depth 4 inside the warm-up of a momentum-SGD and an RMSprop group
    for gt in ("sgd", "rmsprop") + (() if quick else ("adagrad", "adamw")):
        g = make_group(rng, gt)
        g.update(shapes=[[2, 2], [3]], maxdim=2, merge=False, start=6, freq=1)
        if gt == "sgd":
            g["mom0"] = 1
        tasks += sp.exhaustive_tasks(ctx, rng, [g], 4, (), (), redraws=0)
    # float32 with torch's default-sized grafting epsilon and gradients at / below it: thresholds at the dtype's resolution show here
    def small_eps(r):
        g = make_group(r, r.choice(["adagrad", "rmsprop", "adam", "adamw"]))
        g["graft"]["eps"] = r.choice([1e-8, 1e-10])
        return [g]
    f32 = sp.gen_tasks(ctx, rng, 4 if quick else 16, 5 if quick else 12, small_eps, 8, (), (), per_beh_redraw=False)
    for d, _, _ in f32:
        d.update(dtype="float32", pdtype="float32", grad_scales=rng.choice([[1e-7], [1e-8], [1.0, 1e-8, 1.0]]))
        for k in ("grad_mode", "zero_steps"):
            d.pop(k, None)
    tasks += f32
    res4 = sp.pool_map(warmup_task, [(d, b) for d, b, _ in tasks])
    res = [(a, b, c) for a, b, c, _ in res4]
    compared = sum(x[3] for x in res4)
    from harness import behaviours
    traces = [tr for (_, tr, err) in res]
    idx = [i for i, tr in enumerate(traces) if tr is not None]
    vals = behaviours.validate([traces[i] for i in idx]) if idx else []
    validated = [None] * len(tasks)
    for i, v in zip(idx, vals):
        validated[i] = v
    sp.collect(ctx, tasks, res, validated, owns, "grafting")
    ctx.add("traces_validated_against_impl", len(idx))
    ctx.put("torch_optim_param_comparisons", compared)
    if compared == 0:
        raise RuntimeError("vacuous: no warm-up step was compared with torch.optim")
    kinds = {}
    for d, _, _ in tasks:
        for g in d["groups"]:
            kinds[g["gtype"]] = kinds.get(g["gtype"], 0) + 1
    ctx.put("grafting_types", kinds)
    ctx.put("distinct_nontrivial", sp.nontrivial_count(tasks))
    ctx.put("rule", "TLC-simulated behaviours of ShampooOpt with Graft=TRUE (warm-up lengths 2..6, all masks; for Adam/AdamW only the "
                    "histories in which every parameter's own step count equals the group's) replayed on the real optimizer and on the "
                    "corresponding torch.optim optimizer (SGD/Adagrad/RMSprop/Adam/AdamW, README hyperparameter map) over the UNBLOCKED "
                    "parameters, float64, dyadic lr and betas so both formulations are exact re-associations (rtol 1e-12); after the switch "
                    "per-block ||delta|| = lr*||grafted direction|| and delta anti-parallel to the Shampoo direction (momentum = wd = 0)")
    if tasks:
        g0 = tasks[0][0]["groups"][0]
        ctx.sample({"group0": {k: g0[k] for k in ("shapes", "maxdim", "merge", "gtype", "freq", "start", "graft")},
                    "masks": [e["present"] for e in tasks[0][1] if e["ev"] == "Step"]})
    ctx.assume("torch.optim (2.5.1) is the oracle for the warm-up phase")


def replay(ctx, data):
    r = data["replay"]
    res4 = [warmup_task((r["draw"], r["behaviour"]))]
    sp.collect(ctx, [(r["draw"], r["behaviour"], None)], [(a, b, c) for a, b, c, _ in res4], [None], owns, "grafting")
