"""Numeric reference (the concretisation function gamma of DESIGN §4).

Closed-form float64 kernels written from the README / docstrings; nothing is imported from /repo.  The reference
contains NO schedule logic, masks or lists: every control decision (which blocks are active, the step value, whether
this step refreshes, which factor computations succeeded, whether the grafted method is used, which hyperparameter
values are in force) is read from the TLC state sequence (`obs` records of spec/ShampooStep.GroupStep).
"""
from __future__ import annotations

import math

import numpy as np
import torch

F64 = torch.float64


def f32(x: float) -> float:
    return float(np.float32(x))


def bc_pow(one_minus_of: float, base: float, exponent: int, coeff: float = 1.0) -> float:
    """1 - coeff * base**exponent the way the code evaluates its bias corrections: `base ** step` with `step` an int64
    tensor is a float32 tensor (default dtype), so the correction is a single-precision number (documented precision
    detail like the float32 learning rate; mirrored, not re-derived)."""
    t = one_minus_of - coeff * base ** torch.tensor(exponent, dtype=torch.int64)
    return float(t)


def gram(g: torch.Tensor, k: int) -> torch.Tensor:
    """Mode-k Gram matrix: contract every dim except k."""
    dims = [d for d in range(g.dim()) if d != k]
    return torch.tensordot(g, g, dims=[dims, dims])


def mode_apply(g: torch.Tensor, mats: dict[int, torch.Tensor], transpose: bool = False) -> torch.Tensor:
    """g x_k M_k for every k in mats (M applied along dim k: out[..i..] = sum_j M[i,j] g[..j..])."""
    out = g
    for k, m in mats.items():
        mm = m.T if transpose else m
        out = torch.movedim(torch.tensordot(mm, out, dims=[[1], [k]]), 0, k)
    return out


def inv_root_eigh(a: torch.Tensor, root: float, eps: float, stability: bool = False) -> torch.Tensor:
    """(A + eps I)^(-1/root) through a symmetric eigendecomposition, with the documented shift of negative
    eigenvalues; the exponent is carried in single precision, as the code does (C10 names this)."""
    a = a.to(F64)
    expo = float(np.float32(-1.0 / root))
    if a.numel() == 1:
        return (a + eps) ** expo
    if stability:
        lam, q = torch.linalg.eigh(a + eps * torch.eye(a.shape[0], dtype=F64))
        lam = lam - torch.clamp(lam.min() - eps, max=0.0)
    else:
        lam, q = torch.linalg.eigh(a)
        lam = lam - torch.clamp(lam.min(), max=0.0) + eps
    return (q * lam.pow(expo).unsqueeze(0)) @ q.T


class BlockRef:
    """Reference state of one block."""

    def __init__(self, w: torch.Tensor, pdims: list[int], kind: str, has_filt: bool, has_mom: bool, graft: str | None):
        self.w = w  # float64 view into the reference parameter
        self.pdims = pdims  # preconditioned dims
        self.kind = kind
        self.fac = {k: torch.zeros(w.shape[k], w.shape[k], dtype=F64) for k in pdims}
        self.root = {k: torch.zeros(w.shape[k], w.shape[k], dtype=F64) for k in pdims}  # inverse roots / eigenbases
        self.cev = torch.zeros_like(w) if kind == "soap" else None
        self.filt = torch.zeros_like(w) if has_filt else None
        self.mom = torch.zeros_like(w) if has_mom else None
        self.gacc = torch.zeros_like(w) if graft in ("adagrad", "rmsprop", "adam") else None


class GroupRef:
    """Reference for one parameter group.  `hp` holds the concrete hyperparameters (the draw)."""

    def __init__(self, hp: dict, params: list[torch.Tensor], blocks: list[dict]):
        # blocks: per local block {param: index, slices: tuple of slice over the MERGED view, merged: merged shape, pdims}
        self.hp = hp
        self.params = [p.detach().clone().to(F64) for p in params]
        self.blocks: list[BlockRef] = []
        graft = hp["graft"]["type"] if hp.get("graft") else None
        self.graft = graft
        for b in blocks:
            view = self.params[b["param"]].view(b["merged"])[tuple(slice(s, s + l) for s, l in b["slices"])]
            self.blocks.append(BlockRef(view, b["pdims"], hp["kind"], hp["hasFilt"], hp["hasMom"], graft))
        self.block_meta = blocks
        self.bc2 = 1.0
        self.gbc2 = 1.0

    # ---- checkpoint of the optimizer state (parameters are not part of it) ----
    _FIELDS = ("cev", "filt", "mom", "gacc")

    def save_state(self):
        return [{"fac": {k: v.clone() for k, v in b.fac.items()}, "root": {k: v.clone() for k, v in b.root.items()},
                 **{f: (getattr(b, f).clone() if getattr(b, f) is not None else None) for f in self._FIELDS}} for b in self.blocks]

    def load_state(self, saved):
        for b, sv in zip(self.blocks, saved):
            b.fac = {k: v.clone() for k, v in sv["fac"].items()}
            b.root = {k: v.clone() for k, v in sv["root"].items()}
            for f in self._FIELDS:
                setattr(b, f, sv[f].clone() if sv[f] is not None else None)

    def root_for(self, order: int) -> float:
        ov = self.hp["override"]
        default = (2 * order) if self.hp["kind"] == "shampoo" else 2
        if isinstance(ov, (list, tuple)):
            r = default if order >= len(ov) else ov[order]
        else:
            r = default if ov == 0 else ov
        return r / self.hp.get("mult", 1.0)

    def grad_block(self, grads, b):
        meta = self.block_meta[b]
        g = grads[meta["param"]].to(F64).view(meta["merged"])
        return g[tuple(slice(s, s + l) for s, l in meta["slices"])].clone()

    def step(self, obs: dict, grads: list, hy: dict, stored_bases=None):
        """One successful or aborted group step.  obs: the spec's observation record (1-based block ids);
        hy: concrete hyperparameters in force (lr, wd, momentum, beta1, beta3);
        stored_bases: for SOAP, {(block, k): Q read from the real optimizer after this step's refresh}."""
        hp = self.hp
        if not obs["stepped"]:
            return
        s = obs["step"]
        beta2, eps = hp["beta2"], hp["eps"]
        lr, wd, mom, beta1, beta3 = f32(hy["lr"]), hy["wd"], hy["mom"], hy["beta1"], hy["beta3"]
        active = [b - 1 for b in obs["active"]]
        gs = {}
        for b in active:
            blk = self.blocks[b]
            g = self.grad_block(grads, b)
            if wd != 0.0 and not hp["decoupled"]:
                g = g + wd * blk.w
            gs[b] = g
            for k in blk.pdims:
                gk = gram(g, k)
                blk.fac[k] = (beta2 * blk.fac[k] + (1 - beta2) * gk) if beta2 != 1.0 else (blk.fac[k] + gk)
        if hp["bias_corr"] and beta2 < 1.0:
            self.bc2 = float(torch.tensor(1.0) - beta2 ** torch.tensor(s, dtype=torch.int64))
        # amortised computation: exactly the calls the spec lists, with the outcomes the spec lists
        for (b1, k1, out) in obs["calls"]:
            if out != "ok":
                continue
            blk = self.blocks[b1 - 1]
            k = blk.pdims[k1 - 1]
            if hp["kind"] == "shampoo":
                blk.root[k] = inv_root_eigh(blk.fac[k] / self.bc2, self.root_for(blk.w.dim()), eps,
                                            stability=hp.get("method") == "eigen_stab")
            else:
                blk.root[k] = stored_bases[(b1, k1)].to(F64)
        if obs["raised"] != "none":
            return
        # grafting accumulator
        if self.graft in ("adagrad", "rmsprop", "adam"):
            gb2 = 1.0 if self.graft == "adagrad" else hp["graft"]["beta2"]
            for b in active:
                blk = self.blocks[b]
                blk.gacc = (gb2 * blk.gacc + (1 - gb2) * gs[b] ** 2) if gb2 != 1.0 else (blk.gacc + gs[b] ** 2)
            if self.graft == "adam" and gb2 < 1.0:
                self.gbc2 = float(torch.tensor(1.0) - gb2 ** torch.tensor(s, dtype=torch.int64))
        # SOAP corrected eigenvalues (after this step's refresh)
        if hp["kind"] == "soap":
            for b in active:
                blk = self.blocks[b]
                gr = gs[b]
                if self.use_basis(blk):
                    gr = mode_apply(gr, blk.root, transpose=True)
                blk.cev = (beta2 * blk.cev + (1 - beta2) * gr ** 2) if beta2 != 1.0 else (blk.cev + gr ** 2)
        for b in active:
            blk = self.blocks[b]
            g = gs[b]
            # filtered gradient
            if beta1 != 0.0:
                fbar = torch.lerp(blk.filt, g, 1 - beta3) if beta3 != beta1 else None
                blk.filt = torch.lerp(blk.filt, g, 1 - beta1)
                if fbar is None:
                    fbar = blk.filt.clone()
                if hp["bias_corr"]:
                    fbar = fbar / bc_pow(1.0, beta1, s - 1, beta3)
            else:
                fbar = g
            # direction
            gdir = self.graft_dir(blk, fbar) if self.graft else None
            if obs["usegraft"]:
                d = gdir
            else:
                d = self.precond(blk, fbar)
                if self.graft:
                    d = d * (torch.linalg.norm(gdir) / (torch.linalg.norm(d) + 1e-16))
            if wd != 0.0 and hp["decoupled"]:
                d = d + wd * blk.w
            if mom != 0.0:
                blk.mom = mom * blk.mom + (1 - hp["dampening"]) * d
                d = ((1 - hp["dampening"]) * d + mom * blk.mom) if hp["nesterov"] else blk.mom.clone()
            blk.w += -lr * d

    def use_basis(self, blk):
        return bool(blk.pdims) and all(bool(blk.root[k].any()) for k in blk.pdims)

    def graft_dir(self, blk, fbar):
        if self.graft == "sgd":
            return fbar.clone()
        return fbar / (torch.sqrt(blk.gacc / self.gbc2) + self.hp["graft"]["eps"])

    def precond(self, blk, fbar):
        hp = self.hp
        if hp["kind"] == "shampoo":
            return mode_apply(fbar, blk.root)
        r = self.root_for(blk.w.dim())
        g = fbar.clone()
        ub = self.use_basis(blk)
        if ub:
            g = mode_apply(g, blk.root, transpose=True)
        g = g / (blk.cev / self.bc2 + hp["eps"]).pow(1.0 / r)
        if ub:
            g = mode_apply(g, blk.root)
        return g
