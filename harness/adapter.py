"""The only module that touches repository internals: projections of real objects onto the spec's vocabulary.

Degradation rule (DESIGN §2): a missing *internal* name lowers coverage (returns None), it never raises an alarm.
"""
from __future__ import annotations

import torch

from distributed_shampoo.shampoo_types import MAX_PRECONDITIONER_DIM, PARAMS, USE_MERGE_DIMS
from distributed_shampoo.utils.shampoo_distributor import Distributor


def make_group(params, thr, merge, **extra):
    g = {PARAMS: list(params), MAX_PRECONDITIONER_DIM: thr, USE_MERGE_DIMS: merge}
    g.update(extra)
    return g


def _laid_out(logical: torch.Tensor, layout: str) -> torch.Tensor:
    """The same logical tensor in a different memory layout: 'contig'; 'offset' (contiguous view into a larger storage at a
    non-zero storage offset); 'transposed' (dimension order reversed in memory); 'sliced' (every other element of the last
    dimension of a larger buffer)."""
    if layout == "contig" or logical.dim() == 0 and layout != "offset":
        return logical.clone()
    if layout == "offset":
        big = torch.full((logical.numel() + 7,), -1.0, dtype=logical.dtype)
        v = big[5:5 + logical.numel()].view(logical.shape)
        v.copy_(logical)
        return v
    if layout == "transposed":
        rev = tuple(reversed(range(logical.dim())))
        v = torch.empty(tuple(reversed(logical.shape)), dtype=logical.dtype).permute(rev)
        v.copy_(logical)
        return v
    if layout == "sliced":
        big = torch.full(tuple(logical.shape[:-1]) + (2 * logical.shape[-1] + 1,), -1.0, dtype=logical.dtype)
        v = big[..., 1::2][..., :logical.shape[-1]]
        v.copy_(logical)
        return v
    raise ValueError(layout)


def real_blocking(shape, thr, merge, dtype=torch.float64, playout="contig", glayout="contig"):
    """Blocks of the real serial Distributor for param = arange(numel).view(shape) (values ARE the logical row-major indices),
    held in memory layout `playout`; the gradient in layout `glayout`.  If the code refuses the layout (RuntimeError from
    .view on a tensor that cannot be viewed that way) the result is {"refused": where}."""
    numel = 1
    for d in shape:
        numel *= d
    logical = torch.arange(numel, dtype=dtype).view(tuple(shape))
    param = _laid_out(logical, playout).requires_grad_(True)
    try:
        dist = Distributor(make_group([param], thr, merge))
    except RuntimeError as ex:
        return {"refused": "param", "msg": str(ex)[:80]}
    blocks = dist.local_blocked_params
    base_ptr = param.untyped_storage().data_ptr()
    out = {
        "merged": [int(x) for x in dist._global_merged_dims_list[0]] if hasattr(dist, "_global_merged_dims_list") else None,
        "shapes": [[int(x) for x in b.shape] for b in blocks],
        "idx": [[int(v) for v in b.reshape(-1).tolist()] for b in blocks],
        "same_storage": all(b.untyped_storage().data_ptr() == base_ptr for b in blocks),
        "requires_grad": any(b.requires_grad for b in blocks),
        "offsets_ok": playout not in ("contig", "offset") or all(
            (b.numel() == 0) or int(b.reshape(-1)[0].item()) == b.storage_offset() - param.storage_offset() for b in blocks),
    }
    # gradient blocks cover the same index sets in the same order
    grad = _laid_out(logical, glayout)
    param.grad = grad
    try:
        gblocks = dist.merge_and_block_gradients()
        out["gidx"] = [[int(v) for v in b.reshape(-1).tolist()] for b in gblocks]
        out["gshapes"] = [[int(x) for x in b.shape] for b in gblocks]
        out["g_same_storage"] = all(b.untyped_storage().data_ptr() == grad.untyped_storage().data_ptr() for b in gblocks)
    except RuntimeError as ex:
        out["grad_refused"] = str(ex)[:80]
    # writing through the blocks changes the parameter (in-place foreach add on views), each element exactly once
    with torch.no_grad():
        torch._foreach_add_(list(dist.local_masked_blocked_params if "grad_refused" not in out else blocks), 1.0)
    out["write_through"] = bool(torch.equal(param.detach().reshape(-1), torch.arange(numel, dtype=dtype) + 1.0))
    return out


def viewable(shape, layout, target):
    """Can a tensor of `shape` in memory layout `layout` be viewed as `target` without a copy?"""
    numel = 1
    for d in shape:
        numel *= d
    t = _laid_out(torch.zeros(tuple(shape)), layout)
    try:
        t.view(tuple(target))
        return True
    except RuntimeError:
        return False


def real_split_recovery(which, shape, s, e, layout="contig"):
    """Pieces returned by the FSDP / HSDP copy of _split_tensor_block_recovery on a flat shard whose VALUES are the flat indices
    s..e-1.  layout: 'contig' (its own storage), 'offset' (a window of a larger flat buffer, as FSDP hands out per-parameter
    shards of its flat parameter), 'strided' (every other element of a larger buffer)."""
    if which == "fsdp":
        from distributed_shampoo.utils.shampoo_fsdp_distributor import FSDPDistributor as D
    else:
        from distributed_shampoo.utils.shampoo_hsdp_distributor import HSDPDistributor as D
    vals = torch.arange(s, e, dtype=torch.float64)
    if layout == "contig":
        shard = vals.clone()
    elif layout == "offset":
        big = torch.full((e - s + 11,), -1.0, dtype=torch.float64)
        shard = big[7:7 + (e - s)]
        shard.copy_(vals)
    elif layout == "strided":
        big = torch.full((2 * (e - s) + 3,), -1.0, dtype=torch.float64)
        shard = big[1:1 + 2 * (e - s):2]
        shard.copy_(vals)
    else:
        raise ValueError(layout)
    stride = shard.stride(0) if shard.numel() else 1
    pieces = D._split_tensor_block_recovery(shard, torch.Size(shape), s, e)
    base = shard.untyped_storage().data_ptr()
    out = []
    for p in pieces:
        flat = p.reshape(-1)
        first = int(flat[0].item()) if flat.numel() else None
        out.append({
            "off": first,
            "len": int(p.numel()),
            "shp": [int(x) for x in p.shape],
            "view": p.untyped_storage().data_ptr() == base
                    and p.storage_offset() == (shard.storage_offset() + (first - s) * stride if flat.numel() else p.storage_offset()),
            "contiguous_values": bool(flat.numel() == 0 or torch.equal(flat, torch.arange(first, first + flat.numel(), dtype=torch.float64))),
            "is_contiguous": p.is_contiguous(),
        })
    # writing through the pieces reaches every element of the shard exactly once
    with torch.no_grad():
        for p in pieces:
            p.add_(1000.0)
    ok = bool(torch.equal(shard, vals + 1000.0))
    for o in out:
        o["write_through"] = ok
    if not out and e > s:
        out.append({"off": None, "len": 0, "shp": [], "view": True, "contiguous_values": True, "is_contiguous": True, "write_through": ok})
    return out


def real_split_recovery_rejects_nonflat(which):
    if which == "fsdp":
        from distributed_shampoo.utils.shampoo_fsdp_distributor import FSDPDistributor as D
    else:
        from distributed_shampoo.utils.shampoo_hsdp_distributor import HSDPDistributor as D
    res = {}
    for shp in ((2, 3), (1, 6), (6, 1), (1, 1, 6)):
        try:
            D._split_tensor_block_recovery(torch.zeros(shp), torch.Size((2, 3)), 0, 6)
            res[str(shp)] = "returned"
        except ValueError:
            res[str(shp)] = "ValueError"
        except Exception as ex:  # noqa
            res[str(shp)] = type(ex).__name__
    return res


def _dist_cls(which):
    if which == "ddp":
        from distributed_shampoo.utils.shampoo_ddp_distributor import DDPDistributor as D
    elif which == "hsdp":
        from distributed_shampoo.utils.shampoo_hsdp_distributor import HSDPDistributor as D
    else:
        from distributed_shampoo.utils.shampoo_hybrid_shard_distributor import HybridShardDistributor as D
    return D


def real_assignment(which, numels, itemsize, G, rank=0, lpt_only=False):
    """LPT assignment and gather-buffer layout of one of the three copies, driven through a stub `self`.
    lpt_only: sizes are plain integers (no buffer is allocated) - used for loads of several GiB per rank."""
    import types
    D = _dist_cls(which)
    comm_dtype = {2: torch.bfloat16, 4: torch.float32}[itemsize]
    stub = types.SimpleNamespace(_group_size=G, _dist_group_size=G)
    sizes = tuple(n * itemsize for n in numels)
    bsr = D._distribute_buffer_sizes(stub, sizes)
    out = {"lpt": [[int(a), int(r)] for a, r in bsr]}
    if not numels or lpt_only:
        return out
    stub._global_blocked_params = tuple(torch.zeros(n) for n in numels)
    stub._distributor_selector = tuple(r == rank for _, r in bsr)
    D._construct_distributed_buffers(stub, bsr, comm_dtype, rank)
    gbuf = stub._global_dist_buffer
    base = gbuf.untyped_storage().data_ptr()
    out["total"] = int(gbuf.numel())
    out["local_seg"] = [int(stub._local_dist_buffer.storage_offset()), int(stub._local_dist_buffer.numel())]
    out["views"] = [
        {"off": int(v.storage_offset()) * itemsize, "bytes": int(v.numel()) * itemsize, "dtype_ok": v.dtype == comm_dtype,
         "same_storage": v.untyped_storage().data_ptr() == base, "shape_ok": tuple(v.shape) == tuple(p.shape)}
        for v, p in zip(stub._global_dist_blocked_buffers, stub._global_blocked_params)
    ]
    out["local_views"] = len(stub._local_dist_blocked_buffers)
    return out
