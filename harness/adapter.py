"""The only module that touches repository internals: projections of real objects onto the spec's vocabulary.

Degradation rule (DESIGN §2): a missing *internal* name lowers coverage (returns None), it never raises an alarm.
"""
from __future__ import annotations

import torch

from distributed_shampoo.shampoo_types import MAX_PRECONDITIONER_DIM, PARAMS, USE_MERGE_DIMS
from distributed_shampoo.utils.shampoo_distributor import Distributor


def make_group(params, thr, merge, **extra):
    g = {PARAMS: list(params), MAX_PRECONDITIONER_DIM: thr, USE_MERGE_DIMS: merge}
    g.update(extra)
    return g


def real_blocking(shape, thr, merge, dtype=torch.float64):
    """Blocks of the real serial Distributor for param = arange(numel).view(shape); values ARE flat indices."""
    numel = 1
    for d in shape:
        numel *= d
    param = torch.arange(numel, dtype=dtype).view(tuple(shape)).clone().requires_grad_(True)
    dist = Distributor(make_group([param], thr, merge))
    blocks = dist.local_blocked_params
    base_ptr = param.untyped_storage().data_ptr()
    out = {
        "merged": [int(x) for x in dist._global_merged_dims_list[0]] if hasattr(dist, "_global_merged_dims_list") else None,
        "shapes": [[int(x) for x in b.shape] for b in blocks],
        "idx": [[int(v) for v in b.reshape(-1).tolist()] for b in blocks],
        "same_storage": all(b.untyped_storage().data_ptr() == base_ptr for b in blocks),
        "requires_grad": any(b.requires_grad for b in blocks),
        "offsets_ok": all(
            (b.numel() == 0) or int(b.reshape(-1)[0].item()) == b.storage_offset() - param.storage_offset() for b in blocks),
    }
    # gradient blocks cover the same index sets in the same order
    grad = torch.arange(numel, dtype=dtype).view(tuple(shape)).clone()
    param.grad = grad
    gblocks = dist.merge_and_block_gradients()
    out["gidx"] = [[int(v) for v in b.reshape(-1).tolist()] for b in gblocks]
    out["gshapes"] = [[int(x) for x in b.shape] for b in gblocks]
    out["g_same_storage"] = all(b.untyped_storage().data_ptr() == grad.untyped_storage().data_ptr() for b in gblocks)
    # writing through the blocks changes the parameter (in-place foreach add on views), each element exactly once
    with torch.no_grad():
        torch._foreach_add_(list(dist.local_masked_blocked_params), 1.0)
    out["write_through"] = bool(torch.equal(param.detach().reshape(-1), torch.arange(numel, dtype=dtype) + 1.0))
    return out
