"""Thread-per-rank simulated world on torch's threaded process group: the UNMODIFIED distributors / optimizer run on W
simulated ranks inside one process.  Harness-side adjustments (none changes what the code under test computes):
  * get_device_mesh (a process-global @cache) gets a per-thread cache around its own __wrapped__,
  * every process-group creation and every all_gather is logged per rank with a per-rank sequence number,
  * all_gather callers first pass an ARRIVAL GATE: they register (rank, signature) and are released only when every member
    of the group has registered an identical signature, in a seed-derived order; the scheduler therefore decides exactly
    and immediately between proceed / signature mismatch / deadlock (every live rank blocked, no group complete).
"""
from __future__ import annotations

import random
import threading
import traceback

import torch
import torch.distributed as dist

_installed = False
_tls = threading.local()
_current_world = None


class SimAbort(RuntimeError):
    pass


class World:
    def __init__(self, W: int, seed: int = 0):
        self.W = W
        self.rng = random.Random(seed)
        self.lock = threading.Condition()
        self.state = {r: "running" for r in range(W)}      # running | waiting | done
        self.waiting: dict[int, tuple] = {}                  # rank -> signature
        self.released: set[int] = set()
        self.verdict = None                                  # None | ("deadlock"|"mismatch", details)
        self.logs = {r: [] for r in range(W)}
        self.seq = {r: 0 for r in range(W)}
        self.results = {}
        self.partial = {}
        self.errors = {}

    # ---- logging ------------------------------------------------------------------------------------------
    def log(self, rank, ev, **kw):
        with self.lock:
            self.seq[rank] += 1
            self.logs[rank].append(dict(seq=self.seq[rank], ev=ev, **kw))

    # ---- arrival gate -------------------------------------------------------------------------------------
    def gate(self, rank, members: tuple, sig: tuple):
        with self.lock:
            self.state[rank] = "waiting"
            self.waiting[rank] = (members, sig)
            self._evaluate()
            while rank not in self.released and self.verdict is None:
                self.lock.wait(timeout=0.05)
                self._evaluate()
            if self.verdict is not None and rank not in self.released:
                raise SimAbort(self.verdict[0])
            self.released.discard(rank)
            self.state[rank] = "running"

    def _evaluate(self):
        # complete groups: every member waits with the same (members, signature)
        for r, (members, sig) in list(self.waiting.items()):
            if r in self.released:
                continue
            if all(m in self.waiting and m not in self.released for m in members):
                sigs = {self.waiting[m] for m in members}
                if len(sigs) == 1:
                    order = list(members)
                    self.rng.shuffle(order)
                    for m in order:
                        self.released.add(m)
                        del self.waiting[m]
                    self.lock.notify_all()
                    return
                self.verdict = ("mismatch", {m: self.waiting[m] for m in members})
                self.lock.notify_all()
                return
        live = [r for r, s in self.state.items() if s != "done"]
        if live and all(self.state[r] == "waiting" and r not in self.released for r in live):
            self.verdict = ("deadlock", {r: self.waiting.get(r) for r in live})
            self.lock.notify_all()

    def finish(self, rank):
        with self.lock:
            self.state[rank] = "done"
            self._evaluate()
            self.lock.notify_all()


def install():
    """Process-wide, idempotent."""
    global _installed
    if _installed:
        return
    _installed = True
    torch._C._distributed_c10d._set_thread_isolation_mode(True)
    from torch.testing._internal.distributed.multi_threaded_pg import _install_threaded_pg
    _install_threaded_pg()
    import torch.distributed.distributed_c10d as c10d
    import torch.distributed.device_mesh as dm

    real_new_group = c10d.new_group

    def new_group(ranks=None, *a, **kw):
        w = _current_world
        if w is not None:
            w.log(dist.get_rank(), "new_group", ranks=sorted(int(x) for x in ranks) if ranks is not None else None)
        return real_new_group(ranks, *a, **kw)
    c10d.new_group = new_group
    dist.new_group = new_group
    dm.new_group = new_group

    real_subgroups = c10d.new_subgroups

    def new_subgroups(group_size=None, *a, **kw):
        w = _current_world
        if w is not None:
            w.log(dist.get_rank(), "new_subgroups", size=int(group_size) if group_size is not None else None)
        return real_subgroups(group_size, *a, **kw)
    c10d.new_subgroups = new_subgroups
    dist.new_subgroups = new_subgroups

    real_ag = dist.all_gather_into_tensor

    def all_gather_into_tensor(output_tensor, input_tensor, group=None, async_op=False):
        w = _current_world
        rank = dist.get_rank()
        members = tuple(dist.get_process_group_ranks(group if group is not None else dist.group.WORLD))
        # the communicator is part of the signature: two process groups over the same ranks (one per parameter group's distributor)
        # never complete each other's collectives, whatever the buffer sizes
        pg_name = getattr(group if group is not None else dist.group.WORLD, "group_name", None)
        sig = ("all_gather", int(input_tensor.numel() * input_tensor.element_size()), int(output_tensor.numel() * output_tensor.element_size()),
               str(pg_name))
        if w is not None:
            w.log(rank, "all_gather", phase="start", grp=list(members), inb=sig[1], outb=sig[2])
            w.gate(rank, members, sig)
        out = real_ag(output_tensor, input_tensor, group=group, async_op=async_op)
        if w is not None:
            w.log(rank, "all_gather", phase="end", grp=list(members), inb=sig[1], outb=sig[2])
        return out
    dist.all_gather_into_tensor = all_gather_into_tensor

    # per-thread DeviceMesh cache
    from distributed_shampoo.utils import shampoo_dist_utils as du
    raw = du.get_device_mesh.__wrapped__

    def get_device_mesh(device_type, mesh, mesh_dim_names=None):
        cache = _tls.__dict__.setdefault("mesh_cache", {})
        key = (device_type, mesh, mesh_dim_names)
        miss = key not in cache
        w = _current_world
        if w is not None:
            try:
                w.log(dist.get_rank(), "mesh", mesh=[list(x) if isinstance(x, (tuple, list)) else x for x in mesh], miss=miss)
            except Exception:
                pass
        if miss:
            cache[key] = raw(device_type=device_type, mesh=mesh, mesh_dim_names=mesh_dim_names)
        return cache[key]
    import distributed_shampoo.utils.shampoo_ddp_distributor as m1
    import distributed_shampoo.utils.shampoo_hsdp_distributor as m2
    import distributed_shampoo.utils.shampoo_hybrid_shard_distributor as m3
    for m in (du, m1, m2, m3):
        m.get_device_mesh = get_device_mesh


def run_world(W: int, fn, seed: int = 0, timeout: float = 60.0, _retry: bool = True):
    """fn(rank, world) in W threads.  Returns the World (logs, results, errors, verdict).
    The watchdog is only a backstop (gated collectives are decided exactly); because it depends on wall-clock time, a watchdog
    verdict is confirmed by one re-run with a much longer limit before it is reported (a loaded machine must not raise alarms)."""
    global _current_world
    install()
    from torch.testing._internal.distributed.multi_threaded_pg import ProcessLocalGroup
    ProcessLocalGroup.reset()          # a previous world's exception must not poison this one
    world = World(W, seed)
    _current_world = world
    store = dist.HashStore()

    def target(rank):
        _tls.__dict__.clear()
        try:
            dist.init_process_group(backend="threaded", rank=rank, world_size=W, store=store)
            world.results[rank] = fn(rank, world)
        except SimAbort as e:
            world.errors[rank] = f"aborted: {e}"
        except BaseException as e:  # noqa
            world.errors[rank] = "".join(traceback.format_exception_only(type(e), e)).strip() + "\n" + traceback.format_exc()[-1500:]
            try:
                ProcessLocalGroup.exception_handle(e)
            except Exception:
                pass
        finally:
            world.finish(rank)
            try:
                dist.destroy_process_group()
            except Exception:
                pass
    threads = [threading.Thread(target=target, args=(r,), daemon=True) for r in range(W)]
    for t in threads:
        t.start()
    import time as _time
    deadline = _time.time() + timeout          # one limit for the whole world, not one per rank
    decided_at = None
    while any(t.is_alive() for t in threads) and _time.time() < deadline:
        for t in threads:
            if t.is_alive():
                t.join(0.05)
        # once the gates have decided (deadlock / mismatch), ranks that already left their last gate may sit in the transport's own
        # teardown barrier waiting for the aborted ones: that is the harness' teardown, not something to wait for
        if world.verdict is not None:
            decided_at = decided_at or _time.time()
            if _time.time() - decided_at > 3.0:
                break
    if any(t.is_alive() for t in threads) and world.verdict is None:
        with world.lock:
            if world.verdict is None:
                world.verdict = ("watchdog", {})
            world.lock.notify_all()
        deadline = _time.time() + 5
        for t in threads:
            t.join(max(0.0, deadline - _time.time()))
    _current_world = None
    if world.verdict is not None and world.verdict[0] == "watchdog" and _retry:
        return run_world(W, fn, seed, timeout=max(300.0, 5 * timeout), _retry=False)
    return world
