"""Concrete configuration draws (concretisation recipes of DESIGN §4) for the ShampooOpt-based properties."""
from __future__ import annotations

import copy
import random

# structure templates: (shapes, maxdim, merge, ignored)
TEMPLATES = {
    "m2x3": dict(shapes=[[4, 2], [2, 2]], maxdim=2, merge=False, ignored=[]),          # three equal (2,2) blocks
    "v2x3": dict(shapes=[[4], [2]], maxdim=2, merge=False, ignored=[]),                # three equal (2,) blocks
    "m2x2": dict(shapes=[[2, 2], [2, 2]], maxdim=2, merge=False, ignored=[]),          # two params, one block each
    "t3": dict(shapes=[[2, 2, 2]], maxdim=2, merge=False, ignored=[]),                 # order 3
    "s0v": dict(shapes=[[], [3]], maxdim=4, merge=False, ignored=[]),                  # 0-D (no factor) + vector
    "sq": dict(shapes=[[1, 4, 1, 2]], maxdim=4, merge=True, ignored=[]),               # squeeze, no fuse -> (4,2)
    "fuse": dict(shapes=[[3, 5], [2, 3]], maxdim=1024, merge=True, ignored=[]),        # fused to vectors
    "ign0": dict(shapes=[[4, 2]], maxdim=2, merge=False, ignored=[0]),                 # one factor per block
    "ignall": dict(shapes=[[4, 2], [2, 2]], maxdim=2, merge=False, ignored=[0, 1]),    # blocks without factors
    "t4": dict(shapes=[[2, 3, 2, 2]], maxdim=3, merge=False, ignored=[]),              # order 4
    "m3p": dict(shapes=[[2, 2], [2, 2], [2, 2]], maxdim=2, merge=False, ignored=[]),   # three params
    "v3p": dict(shapes=[[2], [2], [2]], maxdim=2, merge=False, ignored=[]),                    # three params, one 1-factor block each
    "many": dict(shapes=[[24, 2], [2, 2]], maxdim=2, merge=False, ignored=[]),                 # a parameter with 12 blocks (two-digit block ids)
    "m6p": dict(shapes=[[2, 2]] * 6, maxdim=2, merge=False, ignored=[]),                       # six params: 64 presence patterns
    "rem1": dict(shapes=[[5], [3]], maxdim=4, merge=False, ignored=[]),                        # a 1-element remainder block
    "big": dict(shapes=[[5, 4], [6]], maxdim=8, merge=False, ignored=[]),                      # factors of size 4..6 in one block
    "rect": dict(shapes=[[5, 3]], maxdim=3, merge=False, ignored=[]),                  # uneven blocks (3,3),(2,3)
    "wide": dict(shapes=[[128, 2], [4, 2], [2, 2]], maxdim=2, merge=False, ignored=[]),        # 67 blocks: the last two parameters sit beyond block 64
}
DYADIC_LR = [0.5, 0.25, 0.125, 0.0625, 0.03125]


def draw_group(rng: random.Random, template: str, *, kind=None, graft=None, filt=None, mom=None, freq=None, start=None,
               tol=None, method=None, wd_on=None) -> dict:
    t = copy.deepcopy(TEMPLATES[template])
    kind = kind or rng.choice(["shampoo", "shampoo", "soap"])
    freq = freq or rng.choice([1, 2, 3])
    start = start if start is not None else rng.choice([freq, freq + 1, freq + 2])
    b1 = rng.choice([0.5, 0.8, 0.9]) if (filt if filt is not None else rng.random() < 0.7) else 0.0
    m = rng.choice([0.5, 0.75, 0.9]) if (mom if mom is not None else rng.random() < 0.6) else 0.0
    gtype = graft if graft is not None else rng.choice([None, "sgd", "adagrad", "rmsprop", "adam"])
    if gtype is False:
        gtype = None
    if gtype is True:
        gtype = rng.choice(["sgd", "adagrad", "rmsprop", "adam"])
    beta3 = -1.0
    if b1 != 0.0 and rng.random() < 0.4:
        beta3 = rng.choice([0.3, 0.6])
    override = 0
    if not t["ignored"] and rng.random() < 0.3:
        override = rng.choice([1, 2, 4, [2, 3, 4], [1]])
    if kind == "shampoo":
        method = method if method in ("eigen", "eigen_stab", "newton", "higher") else rng.choice(["eigen", "eigen", "eigen", "eigen_stab"])
    else:
        method = method if method in ("eigh", "qr") else rng.choice(["eigh", "eigh", "qr"])
    lr1, lr2 = rng.sample(DYADIC_LR, 2)
    wd1 = rng.choice([0.01, 0.1, 0.25])
    wd_on = rng.random() < 0.5 if wd_on is None else wd_on
    g = dict(t)
    g.update(
        freq=freq, start=start, tol=tol if tol is not None else rng.choice([0, 1, 2]), kind=kind, method=method,
        lr=[0.0, lr1, lr2], mom=[0.0, m if m else 0.5, 0.6], b1=[0.0, b1 if b1 else 0.9, 0.7], wd=[0.0, wd1],
        lr0=0 if rng.random() < 0.04 else 1, mom0=1 if m else 0, b10=1 if b1 else 0, wd0=1 if wd_on else 0,
        beta2=rng.choice([1.0, 0.99, 0.9, 0.5]), beta3=beta3, eps=rng.choice([1e-3, 1e-2, 0.1, 0.5]),
        dampening=rng.choice([0.0, 0.1, 0.5]), nesterov=rng.random() < 0.4, bias_corr=rng.random() < 0.6,
        decoupled=rng.random() < 0.5,
        graft=None if gtype is None else {"type": gtype, "eps": rng.choice([1e-3, 1e-2, 0.1]), "beta2": rng.choice([0.9, 0.99, 0.5])},
        override=override, mult=rng.choice([1.0, 1.0, 1.82, 0.5]) if (kind == "shampoo" and method.startswith("eigen")) else 1.0,
        qr_iters=rng.choice([1, 3, 50]), qr_tol=rng.choice([0.0, 1e-5]),
    )
    r = rng.random()
    if r < 0.12:
        g["hyper_style"] = "tensor_lr"
    elif r < 0.24:
        g["hyper_style"] = "int"
        g["lr"] = [0.0, 1.0, lr2]           # handed over as the int 1 (and weight_decay / dampening 0 as the int 0)
    return g


def redraw_numeric(rng: random.Random, g: dict) -> dict:
    """Same abstract configuration (structure, schedule, which buffers exist), different numbers / algebraic options."""
    h = copy.deepcopy(g)
    lr1, lr2 = rng.sample(DYADIC_LR, 2)
    if not h.get("keep_lr"):
        h["lr"] = [0.0, 1.0 if h.get("hyper_style") == "int" else lr1, lr2]
    h["mom"] = [0.0, rng.choice([0.5, 0.75, 0.9]), rng.choice([0.3, 0.6])]
    h["b1"] = [0.0, rng.choice([0.5, 0.8, 0.9]), rng.choice([0.6, 0.7])]
    h["wd"] = [0.0, rng.choice([0.01, 0.1, 0.25])]
    h["beta2"] = rng.choice([1.0, 0.99, 0.9, 0.5])
    h["eps"] = rng.choice([1e-3, 1e-2, 0.1, 0.5])
    h["dampening"] = rng.choice([0.0, 0.1, 0.5])
    h["nesterov"] = rng.random() < 0.4
    h["bias_corr"] = rng.random() < 0.6
    h["decoupled"] = rng.random() < 0.5
    h["qr_iters"], h["qr_tol"] = rng.choice([1, 2, 3, 5, 50]), rng.choice([0.0, 1e-5, 1e-3])
    if h["b1"][h["b10"]] != 0.0:
        h["beta3"] = rng.choice([-1.0, -1.0, 0.3, 0.6])
    if h["graft"]:
        h["graft"] = {"type": rng.choice(["sgd", "adagrad", "rmsprop", "adam"]), "eps": rng.choice([1e-3, 1e-2, 0.1]),
                      "beta2": rng.choice([0.9, 0.99, 0.5])}
    return h


def make_draw(rng: random.Random, groups: list[dict], dtype="float64", pdtype="float64") -> dict:
    d = {"dtype": dtype, "pdtype": pdtype, "seed": rng.randrange(1 << 30), "groups": groups}
    draw_grad_mode(rng, d)
    draw_frozen(rng, d)
    if dtype == "float64" and pdtype == "float64":
        draw_scales(rng, d)
    return d


def draw_frozen(rng: random.Random, d: dict, p: float = 0.2):
    """requires_grad flags: with "toggle_rg" a parameter without a gradient at a step is frozen (requires_grad=False) for that step and
    unfrozen when its gradient is back (fine-tuning schedules); "frozen0" lists the parameters that are frozen when the optimizer is
    CONSTRUCTED.  The flags carry no meaning for the optimizer: an absent gradient is an absent gradient."""
    d.pop("toggle_rg", None)
    d.pop("frozen0", None)
    if rng.random() < p:
        d["toggle_rg"] = True
        d["frozen0"] = [[gi, pi] for gi, g in enumerate(d["groups"]) for pi in range(len(g["shapes"])) if rng.random() < 0.4]


def draw_grad_mode(rng: random.Random, d: dict):
    """Structure of the gradients (an input, not part of the configuration): dense, one-hot in the first steps, striped."""
    d.pop("grad_mode", None)
    d.pop("sparse_steps", None)
    d.pop("stripe_largest", None)
    d.pop("zero_steps", None)
    d.pop("grad_assign", None)
    if rng.random() < 0.15:
        d["zero_steps"] = sorted(rng.sample(range(2, 9), rng.choice([1, 2])))      # all gradients present and exactly zero on these steps
    if rng.random() < 0.12:
        d["grad_assign"] = "data_swap"          # the .grad object persists, its storage is replaced (p.grad.data = new gradient)
    r = rng.random()
    if r < 0.15:
        d["grad_mode"], d["sparse_steps"] = "sparse_first", rng.choice([1, 2, 3])
    elif r < 0.35:
        d["grad_mode"], d["sparse_steps"] = "striped", rng.choice([2, 4, 100, 100])
        d["stripe_largest"] = rng.random() < 0.5          # stripes along the largest mode (else a mode chosen by the seed)


# whole runs at one magnitude, or single steps far BELOW the accumulated history.  (A step far ABOVE the history makes the comparison
# itself ill-conditioned: the error of the stored root, amplified by the large gradient, is no longer small next to the update.)
SCALE_PATTERNS = [[1e-5], [1e-5], [1e3], [1.0, 1.0, 1e-10], [1.0, 1e-10, 1.0, 1e-10], [1.0, 1.0, 1.0, 1e-10, 1e-12], [1.0, 1e-10]]


def draw_scales(rng: random.Random, d: dict, p: float = 0.35):
    """Gradient magnitudes (float64 draws): a whole run of small / large gradients, or single steps far below the accumulated history."""
    d.pop("grad_scales", None)
    if d.get("dtype", "float64") == "float64" and d.get("pdtype", "float64") == "float64" and rng.random() < p:
        d["grad_scales"] = list(rng.choice(SCALE_PATTERNS))


def hyper_moves(groups: list[dict], keys=("mom", "b1", "wd", "lr")) -> list[tuple]:
    """SetHyper moves that make sense for the draw: (group, key, value index)."""
    out = []
    for gi, g in enumerate(groups, start=1):
        for key in keys:
            if key == "mom" and g["mom0"] == 0 or key == "b1" and g["b10"] == 0:
                continue  # no buffer was ever allocated: outside the documented domain
            vals = {"mom": (0, 1, 2), "b1": (0, 1, 2), "wd": (0, 1), "lr": (0, 1, 2), "freq": (1, 2, 3)}[key]     # index 0 is the value 0.0 (freq: the period itself)
            out += [(gi, key, v) for v in vals]
    if len(groups) > 1:          # scheduler moves: every group at once (group index 0)
        for key in keys:
            if key in ("lr", "wd", "freq") or all(g["mom0" if key == "mom" else "b10"] != 0 for g in groups):
                out += [(0, key, v) for v in {"mom": (0, 1, 2), "b1": (0, 1, 2), "wd": (0, 1), "lr": (0, 1, 2), "freq": (1, 2, 3)}[key]]
    return out
