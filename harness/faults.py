"""Scripted outcomes for matrix_inverse_root / matrix_eigenvectors at their import site in shampoo_preconditioner_list
(the same place the repository's own tests patch)."""
from __future__ import annotations

import contextlib

import torch


class InjectedFailure(RuntimeError):
    pass


def failure_classes():
    """Exception classes a matrix routine may throw (the property speaks of 'throws', whatever the class)."""
    return [InjectedFailure, ValueError, ArithmeticError, AssertionError, NotImplementedError, torch.linalg.LinAlgError,
            ZeroDivisionError, FloatingPointError, IndexError, Exception]


def raise_failure(out: str):
    """out = "fail" or "fail:<index into failure_classes()>" """
    cls = failure_classes()[int(out.split(":")[1]) % len(failure_classes())] if ":" in out else InjectedFailure
    raise cls("injected failure")


class Script:
    def __init__(self):
        self.queue: list[str] = []   # outcomes for the upcoming calls, in order
        self.log: list[tuple] = []   # (routine, n, outcome actually applied)

    def arm(self, outcomes):
        self.queue = list(outcomes)
        self.log = []

    def next(self):
        return self.queue.pop(0) if self.queue else "ok"


@contextlib.contextmanager
def patched(script: Script):
    import distributed_shampoo.utils.shampoo_preconditioner_list as pl
    real_root, real_eig = pl.matrix_inverse_root, pl.matrix_eigenvectors

    def wrap(real, name):
        def f(*a, **kw):
            A = kw.get("A", a[0] if a else None)
            out = script.next()
            script.log.append((name, int(A.shape[0]) if A is not None and A.dim() else 1, out))
            if out == "fail":
                raise InjectedFailure("injected failure")
            if out == "nan":
                return torch.full_like(A, float("nan"))
            return real(*a, **kw)
        return f
    pl.matrix_inverse_root = wrap(real_root, "root")
    pl.matrix_eigenvectors = wrap(real_eig, "eig")
    try:
        yield script
    finally:
        pl.matrix_inverse_root, pl.matrix_eigenvectors = real_root, real_eig


@contextlib.contextmanager
def patched_keyed(decide, natural=None):
    """decide(routine, A, estimate) -> "ok" | "fail" | "nan": the harness identifies the factor the call is for;
    natural(result) is told what the real routine returned for an "ok" call."""
    import distributed_shampoo.utils.shampoo_preconditioner_list as pl
    real_root, real_eig = pl.matrix_inverse_root, pl.matrix_eigenvectors

    def wrap(real, name):
        def f(*a, **kw):
            A = kw.get("A", a[0] if a else None)
            est = kw.get("eigenvectors_estimate")
            out = decide(name, A, est)
            if out.startswith("fail"):
                raise_failure(out)
            if out == "nan":
                return torch.full_like(A, float("nan"))
            res = real(*a, **kw)
            if natural is not None:
                natural(res)
            return res
        return f
    pl.matrix_inverse_root = wrap(real_root, "root")
    pl.matrix_eigenvectors = wrap(real_eig, "eig")
    try:
        yield
    finally:
        pl.matrix_inverse_root, pl.matrix_eigenvectors = real_root, real_eig
