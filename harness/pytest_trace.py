"""pytest plugin (engine T, source iii): records every DistributedShampoo instance the repository's own tests create and step,
in the vocabulary of spec/ShampooTrace.  No repository change: the class is wrapped from outside.
Usage:  VERIF_TRACE_OUT=file  pytest -p harness.pytest_trace ...      (PYTHONPATH must contain /verif and the repo)
"""
from __future__ import annotations

import json
import os

TRACES = []


def _abstract(opt):
    from distributed_shampoo import shampoo_types as st
    from harness import realopt
    cfg = []
    for gi, grp in enumerate(opt.param_groups):
        sl = opt._per_group_state_lists[gi]
        lay = realopt.block_layout(opt, gi)
        pc = grp[st.PRECONDITIONER_CONFIG]
        ignored = set(pc.ignored_dims)
        cfg.append({"np": len(grp["params"]), "pOf": [p + 1 for p, _, _ in lay],
                    "nf": [sum(1 for d in range(b.dim()) if d not in ignored) for _, _, b in lay],
                    "freq": grp[st.PRECONDITION_FREQUENCY], "start": grp[st.START_PRECONDITIONING_STEP],
                    "tol": pc.num_tolerated_failed_amortized_computations, "graft": grp[st.GRAFTING_CONFIG] is not None,
                    "kind": "soap" if type(pc).__name__.startswith("EigenvalueCorrected") else "shampoo",
                    "hasFilt": st.FILTERED_GRAD_LIST in sl, "hasMom": st.MOMENTUM_LIST in sl, "wd0": 0})
    return cfg


class Recorder:
    def __init__(self, opt):
        from harness import realopt
        self.opt = opt
        self.ok = True
        self.why = ""
        try:
            from torch.distributed.tensor import DTensor  # noqa
            self.cfg = _abstract(opt)
            if any(type(d).__name__ != "Distributor" for d in (sl["distributor"] for sl in opt._per_group_state_lists)):
                self.ok, self.why = False, "non-serial distributor"
        except Exception as ex:  # noqa
            self.ok, self.why, self.cfg = False, f"cannot project: {type(ex).__name__}", []
        self.events = []
        self.hy = [self._hy(g) for g in opt.param_groups] if self.ok else []
        self.root_at = [[[0] * n for n in c["nf"]] for c in self.cfg]
        self.flags = {}
        if self.ok:
            inner = opt._per_group_step

            def wrapped(*a, **kw):
                sl = a[0] if a else kw.get("state_lists")
                gi = next(i for i, x in enumerate(opt._per_group_state_lists) if x is sl)
                self.flags[gi] = {"refresh": bool(a[9] if len(a) > 9 else kw.get("perform_amortized_computation")),
                                  "usegraft": bool(a[12] if len(a) > 12 else kw.get("use_grafting_method"))}
                return inner(*a, **kw)
            opt._per_group_step = wrapped

    @staticmethod
    def _hy(g):
        return {"mom": 1 if g["momentum"] != 0.0 else 0, "b1": 1 if g["betas"][0] != 0.0 else 0}

    def step(self, real_step, *a, **kw):
        from harness import realopt
        import distributed_shampoo.utils.shampoo_preconditioner_list as pl
        import matrix_functions as mf
        opt = self.opt
        if not self.ok:
            return real_step(opt, *a, **kw)
        if pl.matrix_inverse_root is not mf.matrix_inverse_root or pl.matrix_eigenvectors is not mf.matrix_eigenvectors:
            self.ok, self.why = False, "matrix routine mocked by the test (outcomes unknown)"
            return real_step(opt, *a, **kw)
        for gi, g in enumerate(opt.param_groups):
            now = self._hy(g)
            for key in ("mom", "b1"):
                if now[key] != self.hy[gi][key]:
                    self.events.append({"ev": "SetHyper", "g": gi + 1, "key": key, "v": now[key]})
            self.hy[gi] = now
        present = [[p.grad is not None for p in g["params"]] for g in opt.param_groups]
        tens = [realopt.block_state_tensors(opt, gi) for gi in range(len(self.cfg))]
        before = [{k: realopt.tensor_hash(v) for k, v in t.items()} for t in tens]
        steps0 = [realopt.group_step_value(opt, gi) for gi in range(len(self.cfg))]
        self.flags.clear()
        exc = None
        try:
            out = real_step(opt, *a, **kw)
        except Exception as e:  # noqa
            exc = e
        from harness.replay import classify_exception
        raised = classify_exception(exc)
        obs = []
        entered = sorted(self.flags)
        raising = (max(entered) if entered else 0) if raised != "none" else None
        for gi, c in enumerate(self.cfg):
            reached = raised == "none" or gi <= raising
            if not reached:
                obs.append({"has": True, "reached": False})
                continue
            sv = realopt.group_step_value(opt, gi)
            after = {k: realopt.tensor_hash(v) for k, v in tens[gi].items()}
            for (b, name), h in after.items():
                if name.startswith("root") and before[gi][(b, name)] != h:
                    self.root_at[gi][b - 1][int(name[4:]) - 1] = sv
            ob = {"has": True, "reached": True, "step": sv, "stepped": gi in self.flags, "raised": raised if gi == raising else "none",
                  "rootAt": [list(r) for r in self.root_at[gi]],
                  "active": [i + 1 for i, p in enumerate(c["pOf"]) if present[gi][p - 1]]}
            if gi in self.flags:
                ob.update(self.flags[gi])
            ml = realopt.masked_lists(opt, gi)
            if ml is not None:
                ob["lists"] = ml
            obs.append(ob)
        self.events.append({"ev": "Step", "present": present,
                            "outc": [[{"inf": False, "f": ["ok"] * n} for n in c["nf"]] for c in self.cfg], "obs": obs})
        if exc is not None:
            raise exc
        return out


def pytest_configure(config):
    import distributed_shampoo.distributed_shampoo as ds
    cls = ds.DistributedShampoo
    real_init, real_step = cls.__init__, cls.step

    def init(self, *a, **kw):
        real_init(self, *a, **kw)
        try:
            self._verif_recorder = Recorder(self)
            TRACES.append(self._verif_recorder)
        except Exception:
            pass

    def step(self, *a, **kw):
        rec = getattr(self, "_verif_recorder", None)
        if rec is None:
            return real_step(self, *a, **kw)
        return rec.step(real_step, *a, **kw)
    cls.__init__ = init
    cls.step = step


def pytest_sessionfinish(session, exitstatus):
    out = os.environ.get("VERIF_TRACE_OUT")
    if not out:
        return
    data = {"traces": [{"cfg": r.cfg, "events": r.events} for r in TRACES if r.ok and r.events],
            "skipped": [r.why for r in TRACES if not r.ok], "instances": len(TRACES)}
    with open(out, "w") as f:
        json.dump(data, f)
