"""CLI:  ./check Cxx [--tier quick|thorough] [--replay FILE]"""
from __future__ import annotations

import argparse
import importlib
import json
import logging
import os
import sys
import traceback

from harness import common, tlc

LEVELS = {
    "C01": "model_checking", "C02": "model_checking", "C03": "model_checking", "C04": "model_checking",
    "C05": "model_checking", "C06": "model_checking", "C07": "model_checking", "C08": "model_checking",
    "C09": "model_checking", "C10": "exploration", "C11": "exploration", "C12": "exploration",
    "C13": "model_checking", "C14": "model_checking", "C15": "model_checking", "C16": "model_checking",
    "C17": "model_checking", "C18": "translation_validation", "GROWTH": "model_checking",
}


def main(argv=None) -> int:
    ap = argparse.ArgumentParser()
    ap.add_argument("prop")
    ap.add_argument("--tier", default=os.environ.get("VERIF_TIER", "quick"), choices=["quick", "thorough"])
    ap.add_argument("--replay", default=None)
    ap.add_argument("--seed", type=int, default=int(os.environ.get("VERIF_SEED", "0") or 0))
    a = ap.parse_args(argv)
    if a.prop == "setup":
        return setup()
    prop = a.prop.upper()
    logging.disable(logging.WARNING)
    try:
        common.assert_repo_import()
        drv = importlib.import_module(f"harness.drivers.{prop}")
        ctx = common.Ctx(prop, a.tier, a.seed, LEVELS[prop])
        if a.replay:
            data = json.loads(open(a.replay).read())
            drv.replay(ctx, data)
        else:
            drv.run(ctx)
        return ctx.finish()
    except tlc.TLCMachineryError as e:
        print(f"MACHINERY-FAILURE {prop}: {e}", file=sys.stderr)
        return 2
    except Exception:
        traceback.print_exc()
        print(f"MACHINERY-FAILURE {prop}", file=sys.stderr)
        return 2


def setup() -> int:
    """Offline self-check of the toolchain: java + tla2tools, /venv python with torch, spec modules parse."""
    import subprocess
    ok = True
    for mod in sorted(tlc.SPEC_DIR.glob("*.tla")):
        p = subprocess.run(["java", f"-DTLA-Library={tlc.SPEC_DIR}", "-cp", tlc.JAR, "tla2sany.SANY", str(mod)],
                           capture_output=True, text=True, cwd=tlc.SPEC_DIR)
        bad = "error" in p.stdout.lower() and "Semantic errors" in p.stdout or p.returncode != 0 or "***Parse Error***" in p.stdout
        print(("FAIL " if bad else "ok   ") + mod.name)
        if bad:
            print(p.stdout[-1500:])
        ok &= not bad
    import torch  # noqa
    common.assert_repo_import()
    return 0 if ok else 2


if __name__ == "__main__":
    sys.exit(main())
