------------------------------ MODULE ShampooOpt ------------------------------
(***************************************************************************)
(* The optimizer: a sequence of parameter groups (Cfg), each an instance of *)
(* ShampooStep, driven by the public surface                                *)
(*   Step(present, outc)   optimizer.step() with the given gradient         *)
(*                         presence per parameter and the given outcomes of *)
(*                         the matrix routine (environment's choice)        *)
(*   SetHyper(g, key, v)   param_groups[g][key] := value #v between steps   *)
(*   SetHyperAll(key, v)   the same for every group at once (a scheduler)   *)
(*   Save                  ckpt := what distributed_state_dict carries (the *)
(*                         DURABLE fields of every group)                   *)
(*   Load                  load_distributed_state_dict(ckpt) into the LIVE  *)
(*                         optimizer: durable fields are overwritten in     *)
(*                         place, every volatile field (selector caches,    *)
(*                         masked lists, failure counters) keeps its live   *)
(*                         value - a rollback, or a reload of the current   *)
(*                         state; only when the constant Ckpt is TRUE       *)
(* An exception in group g aborts the remaining groups of the same call.    *)
(* `bad` accumulates the names of violated property clauses (StepChecks);   *)
(* `hist` (only when Emit) is the behaviour as data, printed as JSON for    *)
(* replay into the real optimizer.                                          *)
(***************************************************************************)
EXTENDS ShampooStep, Json
CONSTANTS Cfg,          \* Seq of group configs (see ShampooStep)
          MaxCalls,     \* bound on the number of Step / SetHyper actions
          FaultKinds,   \* subset of {"fail", "nan", "inf"}
          HyperMoves,   \* set of <<group, key, value index>> that SetHyper may perform
          Emit,         \* BOOLEAN: carry hist and print it when the bound is reached
          Ckpt          \* BOOLEAN: Save / Load are part of the public surface explored
VARIABLES st, raised, nCalls, bad, hist, ckpt
vars == <<st, raised, nCalls, bad, hist, ckpt>>
NoCkpt == <<>>

NG == Len(Cfg)
Groups == 1..NG
ParamsOf(gi) == RangeS(Cfg[gi].pOf)

RECURSIVE FnSet(_, _)
\* all functions f with DOMAIN f = dom and f[b] \in ch[b]
FnSet(dom, ch) == IF dom = {} THEN {<<>>}
                  ELSE LET b == CHOOSE x \in dom : TRUE
                       IN {(b :> v) @@ f : f \in FnSet(dom \ {b}, ch), v \in ch[b]}

\* outcomes are only meaningful where the matrix routine will be called: active blocks at a refresh step
OutcChoices(gi, present) ==
  LET g == Cfg[gi]
      willStep == Active(g, present) # {}
      refresh == willStep /\ RefreshF(g, st[gi].hy.freq, st[gi].step + 1)
      okRec(b) == [inf |-> FALSE, f |-> [k \in 1..g.nf[b] |-> "ok"]]
      kinds == {"ok"} \cup (FaultKinds \cap {"fail", "nan"})
  IN [b \in BlocksOf(g) |->
        IF refresh /\ b \in Active(g, present)
        THEN {[inf |-> FALSE, f |-> fs] : fs \in [1..g.nf[b] -> kinds]}
             \cup (IF "inf" \in FaultKinds /\ g.nf[b] >= 1 THEN {[inf |-> TRUE, f |-> okRec(b).f]} ELSE {})
        ELSE {okRec(b)}]

NotReached == [reached |-> FALSE]
\* run the groups in order; stop at the first exception
RECURSIVE RunGroups(_, _, _, _, _, _)
RunGroups(gi, sts, present, outc, obs, acc) ==
  IF gi > NG THEN [st |-> sts, raised |-> "none", obs |-> obs, bad |-> acc]
  ELSE LET g == Cfg[gi]
           r == GroupStep(g, sts[gi], present[gi], outc[gi])
           b == {<<gi, c>> : c \in StepChecks(g, sts[gi], r, present[gi], outc[gi])}
           sts2 == [sts EXCEPT ![gi] = r.st]
           obs2 == [obs EXCEPT ![gi] = [reached |-> TRUE] @@ r.obs]
       IN IF r.raised # "none" THEN [st |-> sts2, raised |-> r.raised, obs |-> obs2, bad |-> acc \cup b]
          ELSE RunGroups(gi + 1, sts2, present, outc, obs2, acc \cup b)

Init == /\ st = [gi \in Groups |-> InitG(Cfg[gi])]
        /\ raised = "none" /\ nCalls = 0 /\ bad = {} /\ hist = <<>> /\ ckpt = NoCkpt

Step(present, outc) ==
  /\ nCalls < MaxCalls
  /\ raised \notin {"value", "len"}          \* nothing sensible continues after NaN/Inf state or a crashed list zip
  /\ LET r == RunGroups(1, st, present, outc, [gi \in Groups |-> NotReached], {})
     IN /\ st' = r.st /\ raised' = r.raised /\ bad' = bad \cup r.bad
        /\ hist' = IF Emit THEN Append(hist, [ev |-> "Step",
                                              present |-> [gi \in Groups |-> [p \in 1..Cfg[gi].np |-> p \in present[gi]]],
                                              outc |-> outc, obs |-> r.obs])
                   ELSE hist
  /\ nCalls' = nCalls + 1 /\ UNCHANGED ckpt

SetHyper(gi, key, v) ==
  /\ nCalls < MaxCalls /\ raised \notin {"value", "len"}
  /\ st[gi].hy[key] # v
  /\ (key = "mom" /\ v > 0 => Cfg[gi].hasMom) /\ (key = "b1" /\ v > 0 => Cfg[gi].hasFilt) /\ (key = "freq" => v >= 1)
  /\ st' = [st EXCEPT ![gi].hy[key] = v]
  /\ raised' = "none" /\ nCalls' = nCalls + 1 /\ UNCHANGED <<bad, ckpt>>
  /\ hist' = IF Emit THEN Append(hist, [ev |-> "SetHyper", g |-> gi, key |-> key, v |-> v]) ELSE hist

\* a scheduler: the same key of EVERY group is set to the same value between two steps (move <<0, key, v>>); the history
\* records it as one SetHyper event per group
SetHyperAll(key, v) ==
  /\ nCalls < MaxCalls /\ raised \notin {"value", "len"}
  /\ \E gi \in Groups : st[gi].hy[key] # v
  /\ \A gi \in Groups : (key = "mom" /\ v > 0 => Cfg[gi].hasMom) /\ (key = "b1" /\ v > 0 => Cfg[gi].hasFilt) /\ (key = "freq" => v >= 1)
  /\ st' = [gi \in Groups |-> [st[gi] EXCEPT !.hy[key] = v]]
  /\ raised' = "none" /\ nCalls' = nCalls + 1 /\ UNCHANGED <<bad, ckpt>>
  /\ hist' = IF Emit THEN hist \o [gi \in Groups |-> [ev |-> "SetHyper", g |-> gi, key |-> key, v |-> v]] ELSE hist

\* checkpointing on the live object (only the latest checkpoint is kept; saving twice in a row adds nothing)
Save ==
  /\ Ckpt /\ nCalls < MaxCalls /\ raised \notin {"value", "len"}
  /\ ckpt # [gi \in Groups |-> Durable(st[gi])]
  /\ ckpt' = [gi \in Groups |-> Durable(st[gi])]
  /\ raised' = "none" /\ nCalls' = nCalls + 1 /\ UNCHANGED <<st, bad>>
  /\ hist' = IF Emit THEN Append(hist, [ev |-> "Save"]) ELSE hist
LoadInto(s, c) == [f \in DOMAIN s |-> IF f \in DurableFields THEN c[f] ELSE s[f]]
Load ==
  /\ Ckpt /\ nCalls < MaxCalls /\ raised \notin {"value", "len"}
  /\ ckpt # NoCkpt
  /\ st' = [gi \in Groups |-> LoadInto(st[gi], ckpt[gi])]
  /\ raised' = "none" /\ nCalls' = nCalls + 1 /\ UNCHANGED <<bad, ckpt>>
  /\ hist' = IF Emit THEN Append(hist, [ev |-> "Load"]) ELSE hist

Next ==
  \/ \E present \in FnSet(Groups, [gi \in Groups |-> SUBSET ParamsOf(gi)]) :
       \E outc \in FnSet(Groups, [gi \in Groups |-> FnSet(BlocksOf(Cfg[gi]), OutcChoices(gi, present[gi]))]) :
          Step(present, outc)
  \/ \E m \in HyperMoves : IF m[1] = 0 THEN SetHyperAll(m[2], m[3]) ELSE SetHyper(m[1], m[2], m[3])
  \/ Save \/ Load
Spec == Init /\ [][Next]_vars

View == <<st, raised, nCalls, bad, ckpt>>
\* Exhaustive configurations: counters that only ever enter the checks as (post - pre) differences are dropped
\* from the fingerprint, root/basis ages are reduced to "exists"; the future behaviour does not depend on them.
LeanG(gi) == LET s == st[gi] IN
  <<s.step, s.dPrev, s.lsel, s.prev, s.dMP, s.mP, s.mK, s.mG, s.mF, s.mM, s.lCnt, s.mCnt, s.aliased, s.hy,
    [b \in BlocksOf(Cfg[gi]) |-> [k \in 1..Cfg[gi].nf[b] |-> s.rootAt[b][k] > 0]],
    s.kSrc, s.fSrc, s.mSrc, s.gSrc, s.pSrc, s.poison, s.failRun>>
ViewLean == <<[gi \in Groups |-> LeanG(gi)], raised, nCalls, bad, ckpt>>

NoViolation == bad = {}
\* group step counters never exceed the number of calls; masked lists always name local blocks
\* a loaded state is a state the optimizer has been in: every step property keeps holding after a rollback (checked through `bad`),
\* and the checkpoint never runs ahead of the calls made
CkptOK == ckpt = NoCkpt \/ \A gi \in Groups : ckpt[gi].step <= nCalls
TypeOK == \A gi \in Groups : /\ st[gi].step <= nCalls
                             /\ RangeS(st[gi].mK) \subseteq BlocksOf(Cfg[gi])
                             /\ Len(st[gi].lCnt) = NL(Cfg[gi])
\* behaviour emission (simulate mode): print the history once the bound is reached
EmitInv == (Emit /\ (nCalls = MaxCalls \/ raised \in {"value", "len"})) => PrintT(<<"BEH", ToJson(hist)>>)
\* vacuity guards (expected to be VIOLATED when checked on purpose: reachability witnesses)
NeverTol == raised # "tol"
NeverValue == raised # "value"
=============================================================================
