---------------------------------- MODULE Utils ----------------------------------
(***************************************************************************)
(* Growth beyond the listed properties: the small pure helpers every        *)
(* distributor and the optimizer are built from                             *)
(*   distributed_shampoo/utils/shampoo_utils.py : compress_list,            *)
(*        generate_pairwise_indices, get_dtype_size                         *)
(*   matrix_functions.py                         : check_diagonal           *)
(* as TLA+ operators, with the algebraic laws their call sites rely on      *)
(* (checked by TLC over every small input in UtilsMC) and used as the       *)
(* oracle for the real functions (./check GROWTH).                          *)
(***************************************************************************)
EXTENDS Naturals, Integers, Sequences, FiniteSets

(* ---- compress_list(complete_list, selector) ---- *)
RECURSIVE CompressFrom(_, _, _)
CompressFrom(xs, sel, i) ==
  IF i > Len(xs) THEN <<>>
  ELSE (IF sel[i] THEN <<xs[i]>> ELSE <<>>) \o CompressFrom(xs, sel, i + 1)
\* the code asserts equal lengths; everything else is itertools.compress, returned as a tuple
Compress(xs, sel) ==
  IF Len(xs) = Len(sel) THEN [ok |-> TRUE, out |-> CompressFrom(xs, sel, 1)]
  ELSE [ok |-> FALSE, out |-> <<>>]

And(a, b) == [i \in 1..Len(a) |-> a[i] /\ b[i]]
Count(sel) == Cardinality({i \in 1..Len(sel) : sel[i]})

\* laws used by the distributors:
\*  local_grad_selector          = compress(global_grad_selector, distributor_selector)
\*  local_masked_blocked_params  = compress(local_blocked_params, local_grad_selector)
\*                               = compress(global_blocked_params, distributor_selector AND global_grad_selector)
CompressLength(xs, sel) == Len(Compress(xs, sel).out) = Count(sel)
CompressCompose(xs, a, b) ==
  Compress(Compress(xs, a).out, Compress(b, a).out).out = Compress(xs, And(a, b)).out
CompressConcat(xs, ys, a, b) ==
  Compress(xs \o ys, a \o b).out = Compress(xs, a).out \o Compress(ys, b).out
CompressOrder(xs, sel) ==          \* a subsequence: order kept, nothing duplicated (xs distinct => out distinct)
  LET out == Compress(xs, sel).out IN
  \A i, j \in 1..Len(out) : i < j =>
     \E p, r \in 1..Len(xs) : p < r /\ sel[p] /\ sel[r] /\ xs[p] = out[i] /\ xs[r] = out[j]

(* ---- generate_pairwise_indices(counts) ---- *)
RECURSIVE PrefixSum(_, _)
PrefixSum(c, i) == IF i = 0 THEN 0 ELSE PrefixSum(c, i - 1) + c[i]
Pairwise(c) == [i \in 1..Len(c) |-> <<PrefixSum(c, i - 1), PrefixSum(c, i)>>]

\* the intervals tile 0..sum(c) in order, one per partition, interval i of length c[i] (zero-length partitions included)
PairwiseTiles(c) ==
  LET p == Pairwise(c) IN
  /\ Len(p) = Len(c)
  /\ \A i \in 1..Len(c) : p[i][2] - p[i][1] = c[i]
  /\ Len(c) > 0 => p[1][1] = 0 /\ p[Len(c)][2] = PrefixSum(c, Len(c))
  /\ \A i \in 1..(Len(c) - 1) : p[i][2] = p[i + 1][1]
\* slicing by the intervals and re-concatenating is the identity: what "blocks of parameter i" means
RECURSIVE ConcatSlices(_, _, _)
ConcatSlices(xs, p, i) ==
  IF i > Len(p) THEN <<>> ELSE SubSeq(xs, p[i][1] + 1, p[i][2]) \o ConcatSlices(xs, p, i + 1)
PairwisePartition(c, xs) == Len(xs) = PrefixSum(c, Len(c)) => ConcatSlices(xs, Pairwise(c), 1) = xs

(* ---- get_dtype_size(dtype): bytes of one element ---- *)
DtypeSize(isBool, bits) == IF isBool THEN 1 ELSE (bits + 7) \div 8

(* ---- check_diagonal(A): entries abstracted to "z" (zero), "nz" (non-zero finite), "nan" ---- *)
\* shape is a sequence of dimension sizes; entries[i][j] for a 2-D square matrix
CheckDiagonal(shape, entries) ==
  IF Len(shape) # 2 THEN [outcome |-> "reject", why |-> "not 2-dimensional", value |-> FALSE]
  ELSE IF shape[1] # shape[2] THEN [outcome |-> "reject", why |-> "not square", value |-> FALSE]
  ELSE [outcome |-> "ok", why |-> "",
        value |-> \A i, j \in 1..shape[1] : i # j => entries[i][j] = "z"]      \* NaN and inf are non-zero for .any()
\* diagonal  <=>  symmetric part and anti-symmetric part are both diagonal; a 0x0 and a 1x1 matrix are diagonal
DiagonalOfSmall(shape, entries) ==
  (Len(shape) = 2 /\ shape[1] = shape[2] /\ shape[1] <= 1) => CheckDiagonal(shape, entries).value
=============================================================================
