-------------------------------- MODULE Quantized --------------------------------
(***************************************************************************)
(* Growth beyond the listed properties: QuantizedTensorList                 *)
(* (distributed_shampoo/utils/shampoo_quantization.py) as a state machine.  *)
(* N tensors are held in a storage ("quantized") dtype; a working copy in   *)
(* the computation dtype exists only between dequantize_() and quantize_()  *)
(* (DequantizeQuantizedTensorListContext enter / exit).  Contents are       *)
(* abstract version numbers; rounding to the storage dtype is the identity  *)
(* on them (the harness uses values representable in both dtypes).          *)
(*  SameDtype = TRUE : the working list IS the storage list (aliasing).     *)
(* compress(selector) yields a child list over the SAME storage tensors.    *)
(***************************************************************************)
EXTENDS Naturals, Sequences, FiniteSets, TLC
CONSTANTS N, SameDtype, MaxVer, MaxOps
VARIABLES q, deq, child, nOps, warned
vars == <<q, deq, child, nOps, warned>>
None == <<>>                       \* no working copy stored
Idx == 1..N
Init == q = [i \in Idx |-> 0] /\ deq = None /\ child = {} /\ nOps = 0 /\ warned = "none"
Stored == deq # None

Dequantize ==            \* dequantize_(): (re)creates the working copy from storage; warns if one is already stored
  /\ nOps < MaxOps /\ nOps' = nOps + 1
  /\ deq' = q /\ warned' = (IF Stored THEN "overwrite" ELSE "none") /\ UNCHANGED <<q, child>>
Modify(i, v) ==          \* in-place write to the working copy (what code inside the context does)
  /\ nOps < MaxOps /\ nOps' = nOps + 1 /\ Stored
  /\ deq' = [deq EXCEPT ![i] = v]
  /\ q' = IF SameDtype THEN [q EXCEPT ![i] = v] ELSE q          \* aliasing when no conversion is needed
  /\ warned' = "none" /\ UNCHANGED child
Quantize ==              \* quantize_(): writes the working copy back and drops it; without one it only warns
  /\ nOps < MaxOps /\ nOps' = nOps + 1
  /\ IF Stored THEN q' = deq /\ deq' = None /\ warned' = "none"
     ELSE UNCHANGED <<q, deq>> /\ warned' = "nothing-stored"
  /\ UNCHANGED child
QuantizeFrom(vals) ==    \* quantize(tensor_list): writes the given values to storage; a stored working copy is left stale
  /\ nOps < MaxOps /\ nOps' = nOps + 1
  /\ q' = vals /\ warned' = (IF Stored /\ vals # deq THEN "stale-working-copy" ELSE "none")
  /\ deq' = IF SameDtype /\ Stored THEN vals ELSE deq
  /\ UNCHANGED child
Compress(sel) ==         \* compress(selector): only without a working copy; the child aliases the selected storage tensors
  /\ nOps < MaxOps /\ nOps' = nOps + 1 /\ ~Stored /\ sel # {}
  /\ child' = sel /\ warned' = "none" /\ UNCHANGED <<q, deq>>
ChildWrite(i, v) ==      \* writing through the child's storage is visible in the parent
  /\ nOps < MaxOps /\ nOps' = nOps + 1 /\ i \in child
  /\ q' = [q EXCEPT ![i] = v] /\ deq' = IF SameDtype /\ Stored THEN [deq EXCEPT ![i] = v] ELSE deq
  /\ warned' = "none" /\ UNCHANGED child
Next == Dequantize \/ Quantize \/ (\E i \in Idx : \E v \in 1..MaxVer : Modify(i, v) \/ ChildWrite(i, v))
        \/ (\E vals \in [Idx -> 0..MaxVer] : QuantizeFrom(vals)) \/ (\E sel \in SUBSET Idx : Compress(sel))
Spec == Init /\ [][Next]_vars

\* the context manager contract: after exit nothing is stored and storage holds what was in the working copy
NoStaleCopyAfterQuantize == [][Quantize => deq' = None]_vars
RoundTrip == [][(Quantize /\ Stored) => q' = deq]_vars
QuantizeWithoutCopyIsNoOp == [][(Quantize /\ ~Stored) => q' = q]_vars
AliasWhenSameDtype == (SameDtype /\ Stored) => deq = q
TypeOK == q \in [Idx -> 0..MaxVer] /\ (deq = None \/ deq \in [Idx -> 0..MaxVer]) /\ child \subseteq Idx
=============================================================================
