------------------------------- MODULE Blocking -------------------------------
(***************************************************************************)
(* Merging and blocking of one parameter tensor (C05).                      *)
(*                                                                          *)
(* One operator per code function, in the code's order:                     *)
(*   Squeeze / MergeSmallDims   ~ shampoo_utils.merge_small_dims            *)
(*   Chunks / MultiDimSplit     ~ shampoo_utils.multi_dim_split (torch.split*)
(*                                applied dim by dim, dim 0 slowest)        *)
(*   Blocks                     ~ DistributorInterface._merge_and_block_... *)
(* A block is a sequence of <<start, len>> per dimension of the (merged)    *)
(* shape; FlatIndices maps it to the row-major offsets of the parent.       *)
(* The declarative properties (ExactlyOnce, RowMajorWithin, DimsBounded,    *)
(* MergeSound) state what the property demands of the result and are        *)
(* checked on the transcription by TLC (BlockingMC); the transcription is   *)
(* then the oracle for the real Distributor (engine O).                     *)
(***************************************************************************)
EXTENDS Naturals, Sequences, FiniteSets, SequencesExt

RECURSIVE Prod(_)
Prod(s) == IF s = <<>> THEN 1 ELSE Head(s) * Prod(Tail(s))

Squeeze(s) == LET t == SelectSeq(s, LAMBDA d : d # 1) IN IF t = <<>> THEN <<1>> ELSE t

RECURSIVE MergeAcc(_, _, _)
MergeAcc(acc, rest, thr) ==
  IF rest = <<>> THEN acc
  ELSE LET last == acc[Len(acc)]
           d    == Head(rest)
       IN IF last * d <= thr
          THEN MergeAcc([acc EXCEPT ![Len(acc)] = last * d], Tail(rest), thr)
          ELSE MergeAcc(Append(acc, d), Tail(rest), thr)

MergeSmallDims(shape, thr) == LET s == Squeeze(shape) IN MergeAcc(<<Head(s)>>, Tail(s), thr)

\* torch.split(t, b, dim): chunks of size b, the last one possibly smaller; a zero-sized dim gives one empty chunk
Chunks(n, b) ==
  IF n = 0 THEN << <<0, 0>> >>
  ELSE [i \in 1..((n + b - 1) \div b) |-> <<(i - 1) * b, IF i * b <= n THEN b ELSE n - (i - 1) * b>>]

RECURSIVE SplitDims(_, _, _, _)
SplitDims(blocks, shape, d, b) ==
  IF d > Len(shape) THEN blocks
  ELSE LET ch == Chunks(shape[d], b)
       IN SplitDims(FlattenSeq([i \in 1..Len(blocks) |->
                                  [j \in 1..Len(ch) |-> [blocks[i] EXCEPT ![d] = ch[j]]]]),
                    shape, d + 1, b)

MultiDimSplit(shape, b) == SplitDims(<< [d \in 1..Len(shape) |-> <<0, shape[d]>>] >>, shape, 1, b)

MergedShape(shape, thr, merge) == IF merge THEN MergeSmallDims(shape, thr) ELSE shape
Blocks(shape, thr, merge) == MultiDimSplit(MergedShape(shape, thr, merge), thr)

BlockShape(blk) == [d \in 1..Len(blk) |-> blk[d][2]]
BlockNumel(blk) == Prod(BlockShape(blk))

\* row-major offsets (w.r.t. `shape`) of the elements of `blk`, enumerated in the block's own row-major order
RECURSIVE IdxFrom(_, _, _, _)
IdxFrom(blk, shape, d, base) ==
  IF d > Len(shape) THEN <<base>>
  ELSE LET stride == Prod(SubSeq(shape, d + 1, Len(shape)))
       IN FlattenSeq([i \in 1..blk[d][2] |-> IdxFrom(blk, shape, d + 1, base + (blk[d][1] + i - 1) * stride)])
FlatIndices(blk, shape) == IdxFrom(blk, shape, 1, 0)

---------------------------------------------------------------------------
\* Declarative side: what C05 demands, stated without reference to how the blocks were produced.

Numel(shape) == Prod(shape)

ExactlyOnce(shape, thr, merge) ==
  LET ms  == MergedShape(shape, thr, merge)
      all == FlattenSeq([i \in 1..Len(Blocks(shape, thr, merge)) |-> FlatIndices(Blocks(shape, thr, merge)[i], ms)])
  IN /\ Len(all) = Numel(shape)
     /\ {all[i] : i \in 1..Len(all)} = 0..(Numel(shape) - 1)

RowMajorWithin(shape, thr, merge) ==
  LET ms == MergedShape(shape, thr, merge)
  IN \A i \in 1..Len(Blocks(shape, thr, merge)) :
       LET f == FlatIndices(Blocks(shape, thr, merge)[i], ms)
       IN \A j \in 1..(Len(f) - 1) : f[j] < f[j + 1]

DimsBounded(shape, thr, merge) ==
  \A i \in 1..Len(Blocks(shape, thr, merge)) :
     \A d \in 1..Len(Blocks(shape, thr, merge)[i]) : Blocks(shape, thr, merge)[i][d][2] <= thr

\* the blocks of one parameter are ordered with dim 0 slowest: lexicographic by their start multi-index
RECURSIVE LexLess(_, _)
LexLess(a, b) == IF a = <<>> THEN FALSE
                 ELSE Head(a)[1] < Head(b)[1] \/ (Head(a)[1] = Head(b)[1] /\ LexLess(Tail(a), Tail(b)))
BlockOrder(shape, thr, merge) ==
  \A i \in 1..(Len(Blocks(shape, thr, merge)) - 1) :
     LexLess(Blocks(shape, thr, merge)[i], Blocks(shape, thr, merge)[i + 1])

\* merged shape = squeezed shape with ADJACENT dims fused, greedily left to right:
\*   a segmentation 0 = c0 < c1 < ... < ck = Len(sq) with merged[i] = Prod(sq[c(i-1)+1 .. ci]),
\*   every fused segment (more than one dim) within thr, and no segment extendable by the next dim.
IsGreedySegmentation(sq, m, thr) ==
  \E cuts \in [0..Len(m) -> 0..Len(sq)] :
     /\ cuts[0] = 0 /\ cuts[Len(m)] = Len(sq)
     /\ \A i \in 1..Len(m) : cuts[i - 1] < cuts[i]
     /\ \A i \in 1..Len(m) :
          /\ m[i] = Prod(SubSeq(sq, cuts[i - 1] + 1, cuts[i]))
          /\ (cuts[i] - cuts[i - 1] > 1 => m[i] <= thr)
          /\ (i < Len(m) => m[i] * sq[cuts[i] + 1] > thr)
          \* greedy from the left: every proper prefix of a fused segment could still take the next dim
          /\ \A j \in (cuts[i - 1] + 1)..(cuts[i] - 1) :
                Prod(SubSeq(sq, cuts[i - 1] + 1, j)) * sq[j + 1] <= thr

MergeSound(shape, thr) ==
  LET sq == Squeeze(shape)
      m  == MergeSmallDims(shape, thr)
  IN /\ Prod(m) = Prod(shape)
     /\ (\A i \in 1..Len(m) : m[i] # 1) \/ m = <<1>>
     /\ IsGreedySegmentation(sq, m, thr)

Tiling(shape, thr, merge) ==
  /\ ExactlyOnce(shape, thr, merge)
  /\ RowMajorWithin(shape, thr, merge)
  /\ DimsBounded(shape, thr, merge)
  /\ BlockOrder(shape, thr, merge)
  /\ (merge => MergeSound(shape, thr))

\* what engine O compares with the real Distributor
Expected(shape, thr, merge) ==
  LET ms == MergedShape(shape, thr, merge)
      bs == Blocks(shape, thr, merge)
  IN [merged |-> ms,
      shapes |-> [i \in 1..Len(bs) |-> BlockShape(bs[i])],
      idx    |-> [i \in 1..Len(bs) |-> FlatIndices(bs[i], ms)]]
=============================================================================
