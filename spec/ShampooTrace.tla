------------------------------ MODULE ShampooTrace ------------------------------
(***************************************************************************)
(* Trace validation / step-function evaluation for ShampooOpt (engines T    *)
(* and O).  A trace is                                                      *)
(*   [cfg |-> Seq(group config), events |-> Seq(event)]                     *)
(*   event = [ev |-> "Step", present, outc, obs]  |  [ev |-> "SetHyper", g, key, v] *)
(*         | [ev |-> "Save"] | [ev |-> "Load"]   (checkpoint of the durable  *)
(*           fields / load into the live optimizer, as in ShampooOpt)       *)
(* where obs (optional per group: [has |-> FALSE] when not recorded) is     *)
(* what the harness OBSERVED on the real optimizer.  The specification is   *)
(* deterministic given the inputs, so the trace spec is total: it computes  *)
(* the unique successor with the spec's own GroupStep and compares field by *)
(* field.  The result lists, per trace, the expected observations, every    *)
(* violated property clause (StepChecks) and the mismatches                 *)
(* <<event index, group, field, expected, observed>>.                       *)
(* Many traces with different configurations are validated per TLC start.   *)
(***************************************************************************)
EXTENDS ShampooStep, Json, IOUtils

NotReachedT == [reached |-> FALSE]

\* fields of the observation record that can be compared when present in the observed record
CmpFields == {"stepped", "step", "refresh", "usegraft", "active", "calls", "raised", "rootAt"}
ListFields == {"dMP", "mP", "mK", "mG", "mF", "mM", "lCnt", "mCnt"}

Mism(idx, gi, g, exp, ob) ==
  IF ~ob.has THEN {}
  ELSE IF ~exp.reached THEN (IF ob.reached THEN {<<idx, gi, "reached", "FALSE", "TRUE">>} ELSE {})
  ELSE IF ~ob.reached THEN {<<idx, gi, "reached", "TRUE", "FALSE">>}
  ELSE {<<idx, gi, f, ToJson(exp[f]), ToJson(ob[f])>> : f \in {x \in CmpFields \cap DOMAIN ob : exp[x] # ob[x]}}
       \cup
       (IF "lists" \in DOMAIN ob
        THEN {<<idx, gi, l, ToJson(exp.lists[l]), ToJson(ob.lists[l])>> :
                 l \in {x \in ListFields \cap DOMAIN ob.lists :
                          /\ (x = "mF" => g.hasFilt) /\ (x = "mM" => g.hasMom) /\ (x = "mG" => g.graft)
                          /\ exp.lists[x] # ob.lists[x]}}
        ELSE {})

RECURSIVE RunGroupsT(_, _, _, _, _, _, _)
RunGroupsT(cfg, gi, sts, ev, idx, obs, acc) ==
  IF gi > Len(cfg) THEN [st |-> sts, obs |-> obs, bad |-> acc.bad, mism |-> acc.mism, raised |-> "none"]
  ELSE LET g == cfg[gi]
           present == {p \in 1..g.np : ev.present[gi][p]}
           r == GroupStep(g, sts[gi], present, ev.outc[gi])
           exp == [reached |-> TRUE] @@ r.obs
           acc2 == [bad  |-> acc.bad \cup {<<idx, gi, c>> : c \in StepChecks(g, sts[gi], r, present, ev.outc[gi])},
                    mism |-> acc.mism \cup Mism(idx, gi, g, exp, ev.obs[gi])]
           sts2 == [sts EXCEPT ![gi] = r.st]
           obs2 == [obs EXCEPT ![gi] = exp]
       IN IF r.raised # "none"
          THEN [st |-> sts2, obs |-> obs2, bad |-> acc2.bad, raised |-> r.raised,
                mism |-> acc2.mism \cup UNION {Mism(idx, gj, cfg[gj], NotReachedT, ev.obs[gj]) : gj \in (gi + 1)..Len(cfg)}]
          ELSE RunGroupsT(cfg, gi + 1, sts2, ev, idx, obs2, acc2)

DurableT(cfg, sts) == [gi \in 1..Len(cfg) |-> Durable(sts[gi])]
LoadIntoT(s, c) == [f \in DOMAIN s |-> IF f \in DurableFields THEN c[f] ELSE s[f]]
RECURSIVE RunEvents(_, _, _, _, _, _)
RunEvents(cfg, sts, ck, events, idx, acc) ==
  IF idx > Len(events) THEN acc
  ELSE LET ev == events[idx] IN
       IF ev.ev = "SetHyper"
       THEN RunEvents(cfg, [sts EXCEPT ![ev.g].hy[ev.key] = ev.v], ck, events, idx + 1,
                      [acc EXCEPT !.exp = Append(@, [ev |-> "SetHyper"])])
       ELSE IF ev.ev = "Save"
       THEN RunEvents(cfg, sts, DurableT(cfg, sts), events, idx + 1, [acc EXCEPT !.exp = Append(@, [ev |-> "Save"])])
       ELSE IF ev.ev = "Load"
       THEN IF ck = <<>>
            THEN [acc EXCEPT !.mism = @ \cup {<<idx, 0, "load", "a checkpoint exists", "none">>}]
            ELSE RunEvents(cfg, [gi \in 1..Len(cfg) |-> LoadIntoT(sts[gi], ck[gi])], ck, events, idx + 1,
                           [acc EXCEPT !.exp = Append(@, [ev |-> "Load"])])
       ELSE LET r == RunGroupsT(cfg, 1, sts, ev, idx, [gi \in 1..Len(cfg) |-> NotReachedT], [bad |-> {}, mism |-> {}])
            IN RunEvents(cfg, r.st, ck, events, idx + 1,
                         [exp |-> Append(acc.exp, [ev |-> "Step", obs |-> r.obs]),
                          bad |-> acc.bad \cup r.bad, mism |-> acc.mism \cup r.mism])

Validate(tr) ==
  LET r == RunEvents(tr.cfg, [gi \in 1..Len(tr.cfg) |-> InitG(tr.cfg[gi])], <<>>, tr.events, 1,
                     [exp |-> <<>>, bad |-> {}, mism |-> {}])
  IN [exp |-> r.exp, bad |-> r.bad, mism |-> r.mism, accepted |-> r.bad = {} /\ r.mism = {}]

Traces == JsonDeserialize(IOEnv.CASES)
ASSUME JsonSerialize(IOEnv.OUT, [i \in 1..Len(Traces) |-> Validate(Traces[i])])
=============================================================================
