---------------------------- MODULE SplitRecoveryMC ----------------------------
(* Exhaustive check of Partition / ValidPiece / minimality for every shape with *)
(* numel <= MaxNumel and order <= MaxOrder and every 0 <= s <= e <= numel.      *)
(* The state is (shape, e); the invariants quantify over all s <= e so the      *)
(* dynamic-programming table is built once per state.  Transitions walk the     *)
(* space: grow a dim, add a dim, move e.                                        *)
EXTENDS SplitRecovery
CONSTANTS MaxOrder, MaxNumel
VARIABLES shape, e
vars == <<shape, e>>
Numel == Prod(shape)
Init == shape = <<>> /\ e = 0
GrowDim(d) == /\ Prod([shape EXCEPT ![d] = @ + 1]) <= MaxNumel
              /\ shape' = [shape EXCEPT ![d] = @ + 1] /\ UNCHANGED e
AddDim     == Len(shape) < MaxOrder /\ shape' = Append(shape, 1) /\ UNCHANGED e
MoveE      == e < Numel /\ e' = e + 1 /\ UNCHANGED shape
ResetE     == e > 0 /\ e' = 0 /\ UNCHANGED shape
Next == (\E d \in 1..Len(shape) : e = 0 /\ GrowDim(d)) \/ (e = 0 /\ AddDim) \/ MoveE \/ ResetE
Spec == Init /\ [][Next]_vars

InvPartition == \A s \in 0..e : Partition(shape, s, e)
InvMinimal   == LET tab == MinTable(shape, e)
                IN \A s \in 0..e : Len(Recover(shape, s, e)) = tab[s]
InvEmpty     == Recover(shape, e, e) = <<>>
=============================================================================
