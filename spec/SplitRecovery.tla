----------------------------- MODULE SplitRecovery -----------------------------
(***************************************************************************)
(* Shard -> tensor-block recovery (C15, used by C07).                       *)
(*                                                                          *)
(* Recover(shape, s, e) transcribes _split_tensor_block_recovery (FSDP and  *)
(* HSDP copies): at dimension d the largest run of whole dim-d slices is    *)
(* split off as the centre piece and the left / right remainders are        *)
(* handled at dimension d+1.  A piece is [off, len, shp].                    *)
(* The declarative side says what C15 demands without the recursion:        *)
(* ValidSlab, Partition, and minimality against MinPieces (dynamic          *)
(* programming over all valid slabs).                                       *)
(***************************************************************************)
EXTENDS Naturals, Sequences, FiniteSets, SequencesExt, FiniteSetsExt, TLC

RECURSIVE Prod(_)
Prod(s) == IF s = <<>> THEN 1 ELSE Head(s) * Prod(Tail(s))
Suffix(s, d) == SubSeq(s, d + 1, Len(s))      \* shape[d:] in Python terms when d is the 1-based dim index

RECURSIVE Rec(_, _, _, _)
Rec(shape, d, s, e) ==
  IF s = e THEN <<>>
  ELSE IF d = Len(shape) THEN << [off |-> s, len |-> e - s, shp |-> <<e - s>>] >>
  ELSE LET rem == Prod(Suffix(shape, d))
           cs  == ((s + rem - 1) \div rem) * rem
           ce  == (e \div rem) * rem
       IN IF cs > ce THEN Rec(shape, d + 1, s, e)
          ELSE Rec(shape, d + 1, s, cs)
               \o (IF cs < ce
                   THEN << [off |-> cs, len |-> ce - cs, shp |-> <<(ce - cs) \div rem>> \o Suffix(shape, d)] >>
                   ELSE <<>>)
               \o Rec(shape, d + 1, ce, e)

\* a 0-D original tensor has one element; the code returns it as a 1-element 1-D view
Recover(shape, s, e) ==
  IF Len(shape) = 0 THEN (IF s = e THEN <<>> ELSE << [off |-> s, len |-> e - s, shp |-> <<e - s>>] >>)
  ELSE Rec(shape, 1, s, e)

---------------------------------------------------------------------------
\* [off, off+len) is k whole slices along some dim d (k >= 1), all inside one index of the dims before d
SlabAt(shape, d, off, len) ==
  LET rem  == Prod(Suffix(shape, d))
      full == rem * shape[d]
  IN /\ len >= rem /\ len % rem = 0 /\ off % rem = 0
     /\ off \div full = (off + len - 1) \div full
ValidSlab(shape, off, len) ==
  IF Len(shape) = 0 THEN off = 0 /\ len = 1
  ELSE \E d \in 1..Len(shape) : SlabAt(shape, d, off, len)
\* the piece's own shape must be the slab's shape  k x shape[d+1:]
ValidPiece(shape, p) ==
  /\ Prod(p.shp) = p.len
  /\ IF Len(shape) = 0 THEN p.shp = <<1>> /\ p.off = 0
     ELSE \E d \in 1..Len(shape) :
            /\ SlabAt(shape, d, p.off, p.len)
            /\ p.shp = <<p.len \div Prod(Suffix(shape, d))>> \o Suffix(shape, d)

\* fewest valid slabs tiling [s, e): table built from e downwards, tab[x] = MinPieces(x, e)
RECURSIVE BuildMin(_, _, _, _)
BuildMin(shape, tab, x, e) ==
  IF x < 0 THEN tab
  ELSE LET cands == {1 + tab[b] : b \in {y \in (x + 1)..e : ValidSlab(shape, x, y - x)}}
           v     == IF x = e THEN 0 ELSE Min(cands)
       IN BuildMin(shape, (x :> v) @@ tab, x - 1, e)
MinTable(shape, e) == BuildMin(shape, <<>>, e, e)

Partition(shape, s, e) ==
  LET r == Recover(shape, s, e) IN
  /\ (r = <<>>) <=> (s = e)
  /\ r # <<>> => r[1].off = s /\ r[Len(r)].off + r[Len(r)].len = e
  /\ \A i \in 1..(Len(r) - 1) : r[i].off + r[i].len = r[i + 1].off
  /\ \A i \in 1..Len(r) : r[i].len > 0 /\ ValidPiece(shape, r[i])

---------------------------------------------------------------------------
\* Flat-parameter sharding (FSDP): the parameters of a group are concatenated in order, the flat vector is cut into n equal
\* chunks (the last ones possibly short or empty); shard rank k holds of parameter i the range FlatShards[k][i] = <<start,end>>
\* of the parameter's own flattened elements (<<0,0>> when it holds none of it).  (C07)
RECURSIVE SumTo(_, _)
SumTo(ns, i) == IF i = 0 THEN 0 ELSE ns[i] + SumTo(ns, i - 1)
Max2(a, b) == IF a >= b THEN a ELSE b
Min2(a, b) == IF a <= b THEN a ELSE b
\* `align`: torch FSDP with use_orig_params=True starts every original parameter at a multiple of 16 bytes inside the flat
\* parameter (align = 16 / itemsize elements, 4 for float32); align = 1 is plain concatenation.  The flat parameter is then padded
\* to a multiple of n and cut into n equal chunks.
RoundUp(x, a) == ((x + a - 1) \div a) * a
RECURSIVE OffsetOf(_, _, _)
OffsetOf(ns, i, align) == IF i = 1 THEN 0 ELSE RoundUp(OffsetOf(ns, i - 1, align) + ns[i - 1], align)
FlatShardsA(shapes, n, align) ==
  LET ns    == [i \in 1..Len(shapes) |-> Prod(shapes[i])]
      total == OffsetOf(ns, Len(ns), align) + ns[Len(ns)]
      chunk == RoundUp(total, n) \div n
  IN [k \in 1..n |-> [i \in 1..Len(shapes) |->
        LET off == OffsetOf(ns, i, align)
            lo  == Max2(off, (k - 1) * chunk)
            hi  == Min2(off + ns[i], k * chunk)
        IN IF lo < hi THEN <<lo - off, hi - off>> ELSE <<0, 0>>]]
FlatShards(shapes, n) == FlatShardsA(shapes, n, 1)
ShardPiecesA(shapes, n, align) ==
  LET fs == FlatShardsA(shapes, n, align)
  IN [k \in 1..n |-> [i \in 1..Len(shapes) |-> Recover(shapes[i], fs[k][i][1], fs[k][i][2])]]
ShardPieces(shapes, n) == ShardPiecesA(shapes, n, 1)
\* across the shard ranks every element of every parameter lies in exactly one recovered piece (=> is updated exactly once per step)
ExactlyOnceAcrossShardsA(shapes, n, align) ==
  LET sp == ShardPiecesA(shapes, n, align)
  IN \A i \in 1..Len(shapes) :
       LET all == FlattenSeq([k \in 1..n |-> sp[k][i]])
       IN /\ (Prod(shapes[i]) > 0) => (all # <<>> /\ all[1].off = 0 /\ all[Len(all)].off + all[Len(all)].len = Prod(shapes[i]))
          /\ \A j \in 1..(Len(all) - 1) : all[j].off + all[j].len = all[j + 1].off
          /\ \A j \in 1..Len(all) : ValidPiece(shapes[i], all[j])
ExactlyOnceAcrossShards(shapes, n) == ExactlyOnceAcrossShardsA(shapes, n, 1)

\* dim-0 sharding of DTensor parameters (fully_shard / hybrid shard, C08): rows are cut into ceil(rows / n) sized chunks, trailing
\* ranks may receive no row; the local shard of rank k is ONE slab (or nothing) and is optimised as an ordinary tensor
Dim0Pieces(shapes, n) ==
  [k \in 1..n |-> [i \in 1..Len(shapes) |->
     LET rows == shapes[i][1]
         rest == Prod(Tail(shapes[i]))
         c    == (rows + n - 1) \div n
         lo   == Min2(rows, (k - 1) * c)
         hi   == Min2(rows, k * c)
     IN IF lo < hi THEN << [off |-> lo * rest, len |-> (hi - lo) * rest, shp |-> <<hi - lo>> \o Tail(shapes[i])] >> ELSE <<>>]]
Dim0ExactlyOnce(shapes, n) ==
  \A i \in 1..Len(shapes) :
     LET all == FlattenSeq([k \in 1..n |-> Dim0Pieces(shapes, n)[k][i]])
     IN /\ all # <<>> /\ all[1].off = 0 /\ all[Len(all)].off + all[Len(all)].len = Prod(shapes[i])
        /\ \A j \in 1..(Len(all) - 1) : all[j].off + all[j].len = all[j + 1].off
        /\ \A j \in 1..Len(all) : ValidPiece(shapes[i], all[j])

Expected(shape, s, e) == Recover(shape, s, e)
=============================================================================
