----------------------------- MODULE SplitRecovery -----------------------------
(***************************************************************************)
(* Shard -> tensor-block recovery (C15, used by C07).                       *)
(*                                                                          *)
(* Recover(shape, s, e) transcribes _split_tensor_block_recovery (FSDP and  *)
(* HSDP copies): at dimension d the largest run of whole dim-d slices is    *)
(* split off as the centre piece and the left / right remainders are        *)
(* handled at dimension d+1.  A piece is [off, len, shp].                    *)
(* The declarative side says what C15 demands without the recursion:        *)
(* ValidSlab, Partition, and minimality against MinPieces (dynamic          *)
(* programming over all valid slabs).                                       *)
(***************************************************************************)
EXTENDS Naturals, Sequences, FiniteSets, SequencesExt, FiniteSetsExt, TLC

RECURSIVE Prod(_)
Prod(s) == IF s = <<>> THEN 1 ELSE Head(s) * Prod(Tail(s))
Suffix(s, d) == SubSeq(s, d + 1, Len(s))      \* shape[d:] in Python terms when d is the 1-based dim index

RECURSIVE Rec(_, _, _, _)
Rec(shape, d, s, e) ==
  IF s = e THEN <<>>
  ELSE IF d = Len(shape) THEN << [off |-> s, len |-> e - s, shp |-> <<e - s>>] >>
  ELSE LET rem == Prod(Suffix(shape, d))
           cs  == ((s + rem - 1) \div rem) * rem
           ce  == (e \div rem) * rem
       IN IF cs > ce THEN Rec(shape, d + 1, s, e)
          ELSE Rec(shape, d + 1, s, cs)
               \o (IF cs < ce
                   THEN << [off |-> cs, len |-> ce - cs, shp |-> <<(ce - cs) \div rem>> \o Suffix(shape, d)] >>
                   ELSE <<>>)
               \o Rec(shape, d + 1, ce, e)

\* a 0-D original tensor has one element; the code returns it as a 1-element 1-D view
Recover(shape, s, e) ==
  IF Len(shape) = 0 THEN (IF s = e THEN <<>> ELSE << [off |-> s, len |-> e - s, shp |-> <<e - s>>] >>)
  ELSE Rec(shape, 1, s, e)

---------------------------------------------------------------------------
\* [off, off+len) is k whole slices along some dim d (k >= 1), all inside one index of the dims before d
SlabAt(shape, d, off, len) ==
  LET rem  == Prod(Suffix(shape, d))
      full == rem * shape[d]
  IN /\ len >= rem /\ len % rem = 0 /\ off % rem = 0
     /\ off \div full = (off + len - 1) \div full
ValidSlab(shape, off, len) ==
  IF Len(shape) = 0 THEN off = 0 /\ len = 1
  ELSE \E d \in 1..Len(shape) : SlabAt(shape, d, off, len)
\* the piece's own shape must be the slab's shape  k x shape[d+1:]
ValidPiece(shape, p) ==
  /\ Prod(p.shp) = p.len
  /\ IF Len(shape) = 0 THEN p.shp = <<1>> /\ p.off = 0
     ELSE \E d \in 1..Len(shape) :
            /\ SlabAt(shape, d, p.off, p.len)
            /\ p.shp = <<p.len \div Prod(Suffix(shape, d))>> \o Suffix(shape, d)

\* fewest valid slabs tiling [s, e): table built from e downwards, tab[x] = MinPieces(x, e)
RECURSIVE BuildMin(_, _, _, _)
BuildMin(shape, tab, x, e) ==
  IF x < 0 THEN tab
  ELSE LET cands == {1 + tab[b] : b \in {y \in (x + 1)..e : ValidSlab(shape, x, y - x)}}
           v     == IF x = e THEN 0 ELSE Min(cands)
       IN BuildMin(shape, (x :> v) @@ tab, x - 1, e)
MinTable(shape, e) == BuildMin(shape, <<>>, e, e)

Partition(shape, s, e) ==
  LET r == Recover(shape, s, e) IN
  /\ (r = <<>>) <=> (s = e)
  /\ r # <<>> => r[1].off = s /\ r[Len(r)].off + r[Len(r)].len = e
  /\ \A i \in 1..(Len(r) - 1) : r[i].off + r[i].len = r[i + 1].off
  /\ \A i \in 1..Len(r) : r[i].len > 0 /\ ValidPiece(shape, r[i])

Expected(shape, s, e) == Recover(shape, s, e)
=============================================================================
