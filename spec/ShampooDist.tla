------------------------------ MODULE ShampooDist ------------------------------
(***************************************************************************)
(* DDP-style distribution of the optimizer over W ranks (C06; the same      *)
(* model is one column of the 2-D meshes of C07 / C08): groups of GS        *)
(* consecutive ranks, every block owned by one group rank (Owner, from      *)
(* Assign), one all_gather per group and step.                              *)
(*                                                                          *)
(* Per-rank program, as coded:                                              *)
(*   construction   new_subgroups (every rank creates every subgroup), then *)
(*                  the DeviceMesh for the state of the blocks it owns      *)
(*   step t         compute the update of the owned blocks that have a      *)
(*                  gradient, write them into the own segment of the gather *)
(*                  buffer, all_gather inside the group, apply the segments *)
(*                  of every block that has a gradient                      *)
(* A collective completes only when every member of its group is blocked in *)
(* a call with the same signature; the transport cannot see the step index, *)
(* so a rank that skipped a step silently pairs with its peers' next call.  *)
(*                                                                          *)
(* Named deviations of the code from C06:                                   *)
(*   "SkipOnLocalEmpty" (D5a)  step() skips the group when the rank's own   *)
(*                             masked gradient list is empty                *)
(*   "LazyOwnerMesh"    (D5b)  the DeviceMesh holding a block's state is    *)
(*                             created lazily, by owner ranks only          *)
(***************************************************************************)
(*                                                                          *)
(* Several parameter groups: every group has its own distributor (own       *)
(* blocks, owners and segment size) but all of them gather over the SAME    *)
(* process group, one after the other inside a step.  The model linearises  *)
(* a step into NPG phases; block b belongs to parameter group PGOf[b]; the  *)
(* signature of a gather is its parameter group (buffer sizes differ), and  *)
(* a gather completes only if all members are blocked with the same         *)
(* signature - otherwise the transport reports a mismatch / hangs, which    *)
(* is a deadlock of the model.                                              *)
(***************************************************************************)
EXTENDS DistCore, TLC
CONSTANTS W, GS, NBlk, Owner, NSteps, Deviations, NPG, PGOf

C == [W |-> W, GS |-> GS, owner |-> [b \in 1..NBlk |-> Owner[b]], dev |-> Deviations, seg |-> 64]

Dev(d) == d \in Deviations
Ranks == 0..(W - 1)
Blk == 1..NBlk
NGroups == W \div GS
GroupOf(r) == r \div GS
GRank(r) == r % GS
Members(g) == {r \in Ranks : GroupOf(r) = g}
Owned(r) == {b \in Blk : Owner[b] = GRank(r)}

\* ---- construction: the sequence of process-group creations each rank issues (DistCore!CreationsC) ----
Creations(r) == CreationsC(C, r)
\* process-group creation is collective over the WORLD: all ranks must issue the same sequence
CreationAgreement == \A r, q \in Ranks : Creations(r) = Creations(q)

\* ---- step phase ----------------------------------------------------------------------------------------
VARIABLES masks, t, wait, seg, pv
vars == <<masks, t, wait, seg, pv>>

NPh == NSteps * NPG                                   \* phases: (step, parameter group) in program order
PG(ph) == ((ph - 1) % NPG) + 1
BlkOf(g) == {b \in Blk : PGOf[b] = g}
Init == /\ masks \in {m \in [1..NPh -> SUBSET Blk] : \A ph \in 1..NPh : m[ph] \subseteq BlkOf(PG(ph))}
        /\ t = [r \in Ranks |-> 1]
        /\ wait = [r \in Ranks |-> FALSE]
        /\ seg = [r \in Ranks |-> [b \in Blk |-> 0]]          \* step tag last written into b's view of r's segment
        /\ pv = [r \in Ranks |-> [b \in Blk |-> <<>>]]          \* provenance of r's copy of block b: tags applied

LocalActive(r) == Owned(r) \cap masks[t[r]]
Skips(r) == ~ParticipatesC(C, r, masks[t[r]])

Compute(r) ==
  /\ ~wait[r] /\ t[r] <= NPh
  /\ IF Skips(r)
     THEN /\ t' = [t EXCEPT ![r] = @ + 1] /\ UNCHANGED <<wait, seg, pv>>
     ELSE /\ seg' = [seg EXCEPT ![r] = [b \in Blk |-> IF b \in LocalActive(r) THEN t[r] ELSE @[b]]]
          /\ wait' = [wait EXCEPT ![r] = TRUE] /\ UNCHANGED <<t, pv>>
  /\ UNCHANGED masks

\* all members blocked in a gather with the same signature (same process group, same buffer sizes = same parameter group)
Gather(g) ==
  /\ \A r \in Members(g) : wait[r]
  /\ \A r, q \in Members(g) : PG(t[r]) = PG(t[q])
  /\ pv' = [r \in Ranks |-> IF r \notin Members(g) THEN pv[r] ELSE
              [b \in Blk |-> IF b \in masks[t[r]]
                             THEN LET src == CHOOSE q \in Members(g) : GRank(q) = Owner[b]
                                  IN Append(pv[r][b], seg[src][b])
                             ELSE pv[r][b]]]
  /\ wait' = [r \in Ranks |-> IF r \in Members(g) THEN FALSE ELSE wait[r]]
  /\ t' = [r \in Ranks |-> IF r \in Members(g) THEN t[r] + 1 ELSE t[r]]
  /\ UNCHANGED <<masks, seg>>

Done == \A r \in Ranks : t[r] = NPh + 1 /\ ~wait[r]
Next == (\E r \in Ranks : Compute(r)) \/ (\E g \in 0..(NGroups - 1) : Gather(g)) \/ (Done /\ UNCHANGED vars)
Spec == Init /\ [][Next]_vars /\ WF_vars(Next)

\* what the serial optimizer does to block b in steps 1..k: one update per step in which b has a gradient
RECURSIVE Ser(_, _)
Ser(b, k) == IF k = 0 THEN <<>> ELSE IF b \in masks[k] THEN Append(Ser(b, k - 1), k) ELSE Ser(b, k - 1)

SerialEquivalence == \A r \in Ranks : ~wait[r] => \A b \in Blk : pv[r][b] = Ser(b, t[r] - 1)
ReplicaAgreement  == \A r, q \in Ranks : (~wait[r] /\ ~wait[q] /\ t[r] = t[q]) => pv[r] = pv[q]
OwnerUnique       == \A b \in Blk : \A g \in 0..(NGroups - 1) : Cardinality({r \in Members(g) : b \in Owned(r)}) = 1
NoRankLeftWaiting == <>[]Done
\* TLC's deadlock check (no successor and not Done) finds the hang of a starved rank's peers

\* the per-rank collective log the harness records is a deterministic function of the inputs
Starvation == \E k \in 1..NPh : \E r \in Ranks : StarvedC(C, r, masks[k])
InvCreation == CreationAgreement
=============================================================================
