------------------------------- MODULE StateDict -------------------------------
(***************************************************************************)
(* Nested optimizer-state dictionaries, their flat form, and module state   *)
(* (C16; the load-outcome table is used by C09).                            *)
(*                                                                          *)
(* A nested dict is a finite set of TERMINALS [path, kind]: kind "leaf" (a  *)
(* tensor) or "empty" (a sub-dict without entries).  A path is a non-empty  *)
(* sequence of keys; a key is [t |-> "s"|"i", v |-> <<char codes>>] (string *)
(* keys and integer keys are different keys even when they print alike).    *)
(* WellFormed: no terminal's path is a prefix of another's.                 *)
(*   Flatten   ~ shampoo_checkpoint_utils.flatten    (leaf paths only)      *)
(*   Unflatten ~ shampoo_checkpoint_utils.unflatten                         *)
(*   Enc       ~ json.dumps(path)  (model of the flat-key text: the spec    *)
(*               only needs it to be injective; the harness checks          *)
(*               injectivity of whatever the real code produces)            *)
(* OptimizerModule object graphs are sets of terminals as well: steps carry *)
(* the container kind ("attr", "dict", "seq"), kinds are "tensor",          *)
(* "scalar" (non-tensor leaf) and "empty".                                  *)
(***************************************************************************)
EXTENDS Naturals, Sequences, FiniteSets, SequencesExt, TLC

WellFormed(T) ==
  /\ \A t \in T : Len(t.path) >= 1
  /\ \A t1, t2 \in T : t1 # t2 => (t1.path # t2.path /\ ~IsStrictPrefix(t1.path, t2.path))

Flatten(T)   == {t.path : t \in {x \in T : x.kind = "leaf"}}
Unflatten(F) == {[path |-> p, kind |-> "leaf"] : p \in F}
Leafful(T)   == {t \in T : t.kind = "leaf"}
NoLeafless(T) == \A t \in T : t.kind = "leaf"

RoundTrip(T) == /\ Unflatten(Flatten(T)) = Leafful(T)
                /\ (NoLeafless(T) => Unflatten(Flatten(T)) = T)
\* restoring never depends on leafless sub-dicts: two trees with the same leaves have the same flat form
DropsOnlyLeafless(T) == Flatten(T) = Flatten(Leafful(T)) /\ Cardinality(Flatten(T)) = Cardinality(Leafful(T))

\* ---- model of the JSON text of a path: ["k1", 2, "k\"3"] -------------------------------------
\* chars are small naturals; the codes that matter: 34 = ", 92 = \, 44 = ',', 32 = ' ', 91 = [, 93 = ]
Q == 34    BS == 92    COMMA == 44    SP == 32    LB == 91    RB == 93
RECURSIVE Esc(_)
Esc(s) == IF s = <<>> THEN <<>>
          ELSE (IF Head(s) = Q \/ Head(s) = BS THEN <<BS, Head(s)>> ELSE <<Head(s)>>) \o Esc(Tail(s))
EncKey(k) == IF k.t = "s" THEN <<Q>> \o Esc(k.v) \o <<Q>> ELSE k.v
RECURSIVE EncKeys(_)
EncKeys(p) == IF Len(p) = 1 THEN EncKey(p[1]) ELSE EncKey(p[1]) \o <<COMMA, SP>> \o EncKeys(Tail(p))
Enc(p) == <<LB>> \o EncKeys(p) \o <<RB>>
\* the same without escaping: the named deviation "NaiveJoin" (collides on hostile keys)
EncKeyNaive(k) == IF k.t = "s" THEN <<Q>> \o k.v \o <<Q>> ELSE k.v
RECURSIVE EncKeysNaive(_)
EncKeysNaive(p) == IF Len(p) = 1 THEN EncKeyNaive(p[1]) ELSE EncKeyNaive(p[1]) \o <<COMMA, SP>> \o EncKeysNaive(Tail(p))
EncNaive(p) == <<LB>> \o EncKeysNaive(p) \o <<RB>>

\* non-ASCII text.  json.dumps(ensure_ascii=True) writes every character >= 128 as a \uXXXX escape and an astral character as
\* the two escapes of its surrogate pair; json.loads joins an escaped high surrogate followed by an escaped low surrogate
\* into the astral character.  A Python str may hold LONE surrogates, so the 2-character key <<HI, LO>> and the 1-character
\* key <<AST>> are different keys with the same escaped text: the named deviation "EscapeNonAscii" (D10).  Enc above
\* (ensure_ascii=False, the repaired code) writes such characters raw.   Codes: HI = 200, LO = 201, AST = 202, U = 117.
HI == 200    LO == 201    AST == 202    U == 117
RECURSIVE EscA(_)
EscA(s) == IF s = <<>> THEN <<>>
           ELSE (CASE Head(s) = Q \/ Head(s) = BS -> <<BS, Head(s)>>
                   [] Head(s) = HI \/ Head(s) = LO -> <<BS, U, Head(s)>>
                   [] Head(s) = AST -> <<BS, U, HI, BS, U, LO>>
                   [] OTHER -> <<Head(s)>>) \o EscA(Tail(s))
EncKeyAscii(k) == IF k.t = "s" THEN <<Q>> \o EscA(k.v) \o <<Q>> ELSE k.v
RECURSIVE EncKeysAscii(_)
EncKeysAscii(p) == IF Len(p) = 1 THEN EncKeyAscii(p[1]) ELSE EncKeyAscii(p[1]) \o <<COMMA, SP>> \o EncKeysAscii(Tail(p))
EncAscii(p) == <<LB>> \o EncKeysAscii(p) \o <<RB>>

InjectiveOn(P, E(_)) == Cardinality({E(p) : p \in P}) = Cardinality(P)

\* ---- OptimizerModule object graphs ---------------------------------------------------------------
\* terminal = [path |-> Seq([c |-> "attr"|"dict"|"seq"|"mod", k |-> Key]), kind |-> "tensor"|"scalar"|"empty"]
ModuleState(G, storeNonTensors) ==
  {[path |-> [i \in 1..Len(t.path) |-> t.path[i].k], kind |-> IF t.kind = "tensor" \/ t.kind = "scalar" THEN "leaf" ELSE "empty"]
     : t \in {x \in G : x.kind = "tensor" \/ x.kind = "empty" \/ (storeNonTensors /\ x.kind = "scalar")}}
\* after load_state_dict(S) into a structurally equal module: tensors are the same objects with the loaded
\* values, scalars keep their old value unless storeNonTensors
LoadedValue(t, old, new, storeNonTensors) ==
  IF t.kind = "tensor" THEN new ELSE IF t.kind = "scalar" /\ storeNonTensors THEN new ELSE old

\* ---- load-outcome table of load_distributed_state_dict (C09) ---------------------------------------
\* saved / live : [params |-> set of param keys, entries |-> [param -> set of flat entry paths],
\*                 groups |-> set of group keys]
LoadOutcome(saved, live) ==
  IF \E p \in saved.params : p \notin live.params THEN "KeyError_unknown_param"
  ELSE IF \E p \in saved.params : \E e \in live.entries[p] : e \notin saved.entries[p] THEN "KeyError_missing_entry"
  ELSE IF Cardinality(saved.groups) # Cardinality(live.groups) THEN "ValueError_group_count"
  ELSE IF \E g \in live.groups : g \notin saved.groups THEN "ValueError_group_key"
  ELSE "ok"
=============================================================================
