-------------------------------- MODULE MeshMC --------------------------------
(***************************************************************************)
(* HSDP / HybridShard on EVERY arrangement of R*S ranks in an R x S mesh    *)
(* (C07 / C08): all ranks create the same DeviceMeshes in the same order    *)
(* (MeshCreationAgreementC), and a block's state lives where its owner's    *)
(* group rank points (StateOnOwnerC), for every group size dividing R.      *)
(* With the deviation "MeshOrderEnumeration" (D11) agreement fails on every *)
(* mesh that has a non-ascending shard column.                              *)
(***************************************************************************)
EXTENDS DistCore, TLC
CONSTANTS R, S, Deviations
VARIABLE grid
N == R * S
Perms == Permutations(0..(N - 1))                      \* TLC!Permutations: bijections of 0..N-1
GridOf(p) == [i \in 1..R |-> [c \in 1..S |-> p[(i - 1) * S + c - 1]]]
Init == grid \in {GridOf(p) : p \in Perms}
Next == UNCHANGED grid
Spec == Init /\ [][Next]_grid
GroupSizes == {g \in 1..R : R % g = 0}
InvMeshCreation == \A gs \in GroupSizes : MeshCreationAgreementC(grid, gs, Deviations)
InvStateOnOwner == \A gs \in GroupSizes : StateOnOwnerC(grid, gs, Deviations)
ColumnsAscending == \A c \in 1..S : GridColumn(grid, c) = Ascending(GridColumn(grid, c))
\* the deviation is harmless exactly on meshes whose shard columns are all ascending (or that have a single column)
InvDeviationExact == ("MeshOrderEnumeration" \in Deviations) =>
                       \A gs \in GroupSizes : (MeshCreationAgreementC(grid, gs, Deviations) <=> (ColumnsAscending \/ S = 1))
=============================================================================
