--------------------------------- MODULE Ctor ---------------------------------
(***************************************************************************)
(* The documented hyperparameter domain of the DistributedShampoo           *)
(* constructor (C17) as a finite decision table.                            *)
(* Float-typed hyperparameters are abstract values                          *)
(*    [k |-> "rat", n |-> Int, d |-> Nat \ {0}] | [k |-> "nan"] |          *)
(*    [k |-> "inf"] | [k |-> "ninf"]                                        *)
(* so that boundary / interior / outside / NaN can be told apart exactly.   *)
(* Comparisons follow IEEE semantics: every comparison with NaN is false,   *)
(* which is why the code writes its checks as `not (x >= 0)`.               *)
(***************************************************************************)
EXTENDS Integers, Sequences, FiniteSets

Rat(n, d) == [k |-> "rat", n |-> n, d |-> d]
NaN  == [k |-> "nan"]
PInf == [k |-> "inf"]
NInf == [k |-> "ninf"]

GE0(a)    == a.k = "inf" \/ (a.k = "rat" /\ a.n >= 0)                 \* a >= 0
GT0(a)    == a.k = "inf" \/ (a.k = "rat" /\ a.n > 0)                  \* a > 0
In01ro(a) == a.k = "rat" /\ a.n >= 0 /\ a.n < a.d                     \* 0 <= a < 1
In01lo(a) == a.k = "rat" /\ a.n > 0 /\ a.n <= a.d                     \* 0 < a <= 1
IsMinusOne(a) == a.k = "rat" /\ a.n = -a.d                             \* a == -1.0

SeqToSet(s) == {s[i] : i \in 1..Len(s)}
OverrideIsDefault(o) == o.k = "int" /\ o.v = 0
OverrideOK(o) == IF o.k = "int" THEN o.v >= 0 ELSE \A i \in 1..Len(o.v) : o.v[i] >= 0

GraftOK(g) ==
  CASE g.type \in {"none", "sgd", "unknown"} -> TRUE
    [] g.type = "adagrad" -> GT0(g.eps)
    [] g.type \in {"rmsprop", "adam"} -> GT0(g.eps) /\ In01lo(g.beta2)

\* The boolean flags (use_nesterov, use_bias_correction, use_decoupled_weight_decay) and the container type of the override
\* (list / tuple / range: any Sequence[int]) carry no documented restriction: they are fields of h that ValueOK does not read,
\* so every combination of them with values inside the ranges below must construct.
\* value checks, all of which raise ValueError
ValueOK(h) ==
  /\ GE0(h.lr)
  /\ In01ro(h.beta1)
  /\ In01lo(h.beta2)
  /\ (IsMinusOne(h.beta3) \/ In01ro(h.beta3))
  /\ GT0(h.eps)
  /\ In01ro(h.momentum)
  /\ In01ro(h.dampening)
  /\ GE0(h.wd)
  /\ h.maxdim >= 1
  /\ h.freq >= 1
  /\ (h.start = -1 \/ h.start >= h.freq)
  /\ OverrideOK(h.override)
  /\ (h.ignored # <<>> => OverrideIsDefault(h.override))
  /\ Cardinality(SeqToSet(h.ignored)) = Len(h.ignored)
  /\ h.tol >= 0
  /\ GraftOK(h.graft)

ClassesOK(h) == h.pc # "unknown" /\ h.dc # "unknown" /\ h.graft.type # "unknown"

Outcome(h) == IF ~ValueOK(h) THEN "ValueError"
              ELSE IF ~ClassesOK(h) THEN "NotImplementedError"
              ELSE "ok"

Resolved(h) == [beta3 |-> IF IsMinusOne(h.beta3) THEN h.beta1 ELSE h.beta3,
                start |-> IF h.start = -1 THEN h.freq ELSE h.start]

\* sanity of the table itself
ResolvedInRange(h) == Outcome(h) = "ok" => (In01ro(Resolved(h).beta3) /\ Resolved(h).start >= h.freq /\ Resolved(h).start >= 1)
=============================================================================
