------------------------------ MODULE BlockingMC ------------------------------
(* Exhaustive enumeration of (shape, threshold, merge) for the declarative      *)
(* properties of Blocking.  The state is one case; the transition relation      *)
(* walks the case space (grow a dimension, add a dimension, raise the threshold,*)
(* toggle merging) so that every case within the bounds is reachable from the   *)
(* 0-D tensor and TLC's distinct-state count is the number of cases checked.    *)
EXTENDS Blocking, TLC
CONSTANTS MaxOrder, MaxDim, MaxThr
VARIABLES shape, thr, merge
vars == <<shape, thr, merge>>

Init == shape = <<>> /\ thr = 1 /\ merge = FALSE
GrowDim(d)  == /\ shape[d] < MaxDim /\ shape' = [shape EXCEPT ![d] = @ + 1] /\ UNCHANGED <<thr, merge>>
AddDim      == /\ Len(shape) < MaxOrder /\ shape' = Append(shape, 1) /\ UNCHANGED <<thr, merge>>
RaiseThr    == /\ thr < MaxThr /\ thr' = thr + 1 /\ UNCHANGED <<shape, merge>>
ToggleMerge == /\ merge' = ~merge /\ UNCHANGED <<shape, thr>>
Next == (\E d \in 1..Len(shape) : GrowDim(d)) \/ AddDim \/ RaiseThr \/ ToggleMerge
Spec == Init /\ [][Next]_vars

InvExactlyOnce    == ExactlyOnce(shape, thr, merge)
InvRowMajorWithin == RowMajorWithin(shape, thr, merge)
InvDimsBounded    == DimsBounded(shape, thr, merge)
InvBlockOrder     == BlockOrder(shape, thr, merge)
InvMergeSound     == MergeSound(shape, thr)
\* merging never changes which elements exist, only how they are grouped: same number of elements,
\* and with merge off the merged shape is the shape itself
InvMergeOffIdentity == MergedShape(shape, thr, FALSE) = shape
=============================================================================
