------------------------------- MODULE AssignMC -------------------------------
(* Exhaustive check of the assignment / layout properties for every sequence of *)
(* block sizes over SizeSet with length <= MaxLen and every group size 1..MaxG. *)
EXTENDS Assign
CONSTANTS SizeSet, MaxLen, MaxG
VARIABLES sizes, G
vars == <<sizes, G>>
Init == sizes = <<>> /\ G = 1
AddBlock(s) == Len(sizes) < MaxLen /\ sizes' = Append(sizes, s) /\ UNCHANGED G
MoreRanks   == G < MaxG /\ G' = G + 1 /\ UNCHANGED sizes
Next == (\E s \in SizeSet : AddBlock(s)) \/ MoreRanks
Spec == Init /\ [][Next]_vars
InvPartition  == PartitionOK(sizes, G)
InvLPTRule    == LPTRule(sizes, G)
InvFourThirds == FourThirds(sizes, G)
InvSpread     == Spread(sizes, G)
InvViews      == ViewsOK(sizes, G)
=============================================================================
