-------------------------------- MODULE MatrixFn --------------------------------
(***************************************************************************)
(* matrix_functions.py as far as a specification can decide it (C10-C12):   *)
(*  (a) the dispatch / rejection tables of matrix_inverse_root and          *)
(*      matrix_eigenvectors, in the code's order of checks;                 *)
(*  (b) the spectral transfer function of every inverse-root path: which    *)
(*      regularised eigenvalue each path actually inverts, over exact       *)
(*      rationals <<num, den>> (den > 0), with the facts that follow by     *)
(*      order reasoning alone (no fractional powers are ever taken here):   *)
(*      TransferAgreement, Positivity, UpperBound;                          *)
(*  (c) the control state machines of the two iterative solvers live in     *)
(*      MatrixSolvers; TerminalOK below is what they imply for a return     *)
(*      record the harness can observe.                                     *)
(* Floating-point accuracy itself is measured by the harness at the case    *)
(* classes enumerated here (DESIGN §9).                                     *)
(***************************************************************************)
EXTENDS Integers, Sequences, FiniteSets, TLC

\* ---- (a) dispatch ---------------------------------------------------------------------------------
\* descriptor: [numel1, ndim2, square, isdiag : BOOLEAN, cfg : STRING, rootpos, rootint : BOOLEAN]
InverseRootDispatch(d) ==
  IF d.numel1 THEN "scalar"                                  \* precedes every shape check
  ELSE IF ~d.ndim2 THEN "ValueError"
  ELSE IF ~d.square THEN "ValueError"
  ELSE IF d.isdiag THEN (IF d.rootpos THEN "diagonal" ELSE "ValueError")
  ELSE IF d.cfg \in {"eigen", "eigen_stab"} THEN (IF d.rootpos THEN d.cfg ELSE "ValueError")
  ELSE IF d.cfg = "newton" THEN (IF d.rootint THEN "newton" ELSE "ValueError")
  ELSE IF d.cfg = "higher" THEN "higher"
  ELSE "NotImplementedError"

\* descriptor: [numel1, ndim2, square, isdiag : BOOLEAN, cfg : "eigh" | "qr" | "other", estzero : BOOLEAN]
EigenvectorDispatch(d) ==
  IF d.numel1 THEN "ones"
  ELSE IF ~d.ndim2 THEN "ValueError"
  ELSE IF ~d.square THEN "ValueError"
  ELSE IF d.isdiag THEN "identity"
  ELSE IF d.cfg = "eigh" THEN "eigh"
  ELSE IF d.cfg = "qr" THEN (IF d.estzero THEN "eigh" ELSE "orthogonal_iteration")
  ELSE "NotImplementedError"

\* ---- (b) transfer functions over rationals -----------------------------------------------------------
R(n, d) == <<n, d>>
RECURSIVE Gcd(_, _)
Gcd(a, b) == IF b = 0 THEN a ELSE Gcd(b, a % b)
Lcm0(x, y) == (x \div Gcd(x, y)) * y
Le(a, b) == LET l == Lcm0(a[2], b[2]) IN a[1] * (l \div a[2]) <= b[1] * (l \div b[2])
Lt(a, b) == LET l == Lcm0(a[2], b[2]) IN a[1] * (l \div a[2]) < b[1] * (l \div b[2])
Eq(a, b) == LET l == Lcm0(a[2], b[2]) IN a[1] * (l \div a[2]) = b[1] * (l \div b[2])
Abs(x) == IF x < 0 THEN -x ELSE x
Norm(a) == LET g == Gcd(Abs(a[1]), a[2]) IN IF g = 0 THEN a ELSE <<a[1] \div g, a[2] \div g>>
\* sums over the least common denominator (TLC integers are 32-bit)
Lcm(x, y) == (x \div Gcd(x, y)) * y
Add(a, b) == LET l == Lcm(a[2], b[2]) IN Norm(<<a[1] * (l \div a[2]) + b[1] * (l \div b[2]), l>>)
Sub(a, b) == LET l == Lcm(a[2], b[2]) IN Norm(<<a[1] * (l \div a[2]) - b[1] * (l \div b[2]), l>>)
Zero == <<0, 1>>
MinR(a, b) == IF Le(a, b) THEN a ELSE b
MaxR(a, b) == IF Le(a, b) THEN b ELSE a
RECURSIVE MinSeq(_)
MinSeq(s) == IF Len(s) = 1 THEN s[1] ELSE MinR(s[1], MinSeq(Tail(s)))

\* spectrum: Seq of rationals (eigenvalues of the symmetric input); eps > 0; relmax = rel_epsilon * |A|_inf for the higher-order path
Regularised(path, spec, eps, relmax) ==
  LET lmin == MinSeq(spec)
  IN CASE path = "eigen"      -> [i \in 1..Len(spec) |-> Add(Sub(spec[i], MinR(lmin, Zero)), eps)]
       [] path = "eigen_stab" -> \* eigenvalues of A + eps I, then shifted by -min((lmin + eps) - eps, 0)
                                 [i \in 1..Len(spec) |-> Sub(Add(spec[i], eps), MinR(Sub(Add(lmin, eps), eps), Zero))]
       [] path = "scalar"     -> \* 1-element fast path: a negative entry is clamped to zero, as the eigen path's shift does for n = 1
                                 [i \in 1..Len(spec) |-> Add(MaxR(spec[i], Zero), eps)]
       [] path \in {"diagonal", "newton"} -> [i \in 1..Len(spec) |-> Add(spec[i], eps)]
       [] path = "higher"     -> [i \in 1..Len(spec) |-> Add(spec[i], MaxR(relmax, eps))]

IsPSD(spec) == \A i \in 1..Len(spec) : Le(Zero, spec[i])
Paths == {"eigen", "eigen_stab", "diagonal", "scalar", "newton", "higher"}
\* all paths invert the same regularised spectrum on PSD input (rel_epsilon = 0)
TransferAgreement(spec, eps) ==
  IsPSD(spec) => \A p, q \in Paths : \A i \in 1..Len(spec) :
                    Eq(Regularised(p, spec, eps, Zero)[i], Regularised(q, spec, eps, Zero)[i])
\* the eigendecomposition paths never invert anything below eps, whatever (finite, real) spectrum comes in:
\* x >= eps > 0  =>  x^(-1/r) is finite, positive and <= eps^(-1/r) for every positive root r
EigenPositivity(spec, eps) ==
  \A p \in {"eigen", "eigen_stab"} : \A i \in 1..Len(spec) : Le(eps, Regularised(p, spec, eps, Zero)[i])
\* the two eigen variants are the same function of the spectrum
StabilityIsIdentity(spec, eps) ==
  \A i \in 1..Len(spec) : Eq(Regularised("eigen", spec, eps, Zero)[i], Regularised("eigen_stab", spec, eps, Zero)[i])
\* order is preserved (inverse root is monotone decreasing): larger eigenvalue of A -> larger regularised eigenvalue
OrderPreserved(spec, eps) ==
  \A p \in Paths : \A i, j \in 1..Len(spec) :
     Le(spec[i], spec[j]) => Le(Regularised(p, spec, eps, Zero)[i], Regularised(p, spec, eps, Zero)[j])

\* ---- (c') terminal records the harness may observe (trace validation of solver returns)
TerminalOK(rec) ==
  /\ rec.it <= rec.max
  /\ (rec.result = "returned" =>
        /\ (rec.flag = "CONVERGED" => rec.err_le_tol)
        /\ (rec.flag = "REACHED_MAX_ITERS" => ~rec.err_le_tol /\ (rec.it = rec.max \/ rec.err_nan))
        /\ (rec.solver = "higher" => rec.true_le_guard /\ rec.finite)
        /\ (rec.solver = "newton" => rec.flag # "EARLY_STOP"))
  /\ (rec.solver = "higher" => rec.tf32_after = rec.tf32_before)
=============================================================================
