-------------------------------- MODULE Assign --------------------------------
(***************************************************************************)
(* Block-to-rank assignment and gather-buffer layout (C14; Owner map used   *)
(* by ShampooDist).                                                         *)
(*   Align64, LPT        ~ _distribute_buffer_sizes  (three copies)         *)
(*   Layout              ~ _construct_distributed_buffers +                 *)
(*                         _split_local_dist_buffers                        *)
(* Sizes are block byte sizes (numel * itemsize of the communication dtype).*)
(* Ranks are 0..G-1 (group ranks).  Blocks are 1..Len(sizes).               *)
(***************************************************************************)
EXTENDS Naturals, Sequences, FiniteSets, SequencesExt, FiniteSetsExt, TLC

Align64(b) == ((b + 63) \div 64) * 64
Aligned(sizes) == [i \in 1..Len(sizes) |-> Align64(sizes[i])]

\* largest first; Python's sorted(..., reverse=True) is stable: equal sizes keep their original order
Before(al, i, j) == al[i] > al[j] \/ (al[i] = al[j] /\ i < j)
Order(al) == SortSeq([i \in 1..Len(al) |-> i], LAMBDA i, j : Before(al, i, j))

\* heapq on (load, rank): least load, ties to the lowest rank
LeastLoaded(loads) ==
  CHOOSE q \in DOMAIN loads : \A p \in DOMAIN loads : loads[q] < loads[p] \/ (loads[q] = loads[p] /\ q <= p)

RECURSIVE Place(_, _, _, _)
Place(al, ord, loads, owner) ==
  IF ord = <<>> THEN owner
  ELSE LET i == Head(ord)
           r == LeastLoaded(loads)
       IN Place(al, Tail(ord), [loads EXCEPT ![r] = @ + al[i]], [owner EXCEPT ![i] = r])

Owner(sizes, G) ==
  LET al == Aligned(sizes)
  IN Place(al, Order(al), [r \in 0..(G - 1) |-> 0], [i \in 1..Len(sizes) |-> 0])

LPT(sizes, G) == LET ow == Owner(sizes, G) IN [i \in 1..Len(sizes) |-> <<Align64(sizes[i]), ow[i]>>]

RECURSIVE SumSeq(_)
SumSeq(s) == IF s = <<>> THEN 0 ELSE Head(s) + SumSeq(Tail(s))
LoadOf(al, ow, r) == SumSeq(SelectSeq([i \in 1..Len(al) |-> IF ow[i] = r THEN al[i] ELSE 0], LAMBDA x : TRUE))
Loads(sizes, G) == LET al == Aligned(sizes)  ow == Owner(sizes, G)
                   IN [r \in 0..(G - 1) |-> LoadOf(al, ow, r)]
MaxLoad(sizes, G) == Max({Loads(sizes, G)[r] : r \in 0..(G - 1)})
MinLoad(sizes, G) == Min({Loads(sizes, G)[r] : r \in 0..(G - 1)})

\* gather buffer: G segments of MaxLoad bytes; inside the owner's segment the blocks lie in BLOCK order
Layout(sizes, G) ==
  LET al  == Aligned(sizes)
      ow  == Owner(sizes, G)
      seg == IF Len(sizes) = 0 THEN 0 ELSE MaxLoad(sizes, G)
      pre(i) == SumSeq([j \in 1..(i - 1) |-> IF ow[j] = ow[i] THEN al[j] ELSE 0])
  IN [i \in 1..Len(sizes) |-> [owner |-> ow[i], off |-> ow[i] * seg + pre(i), bytes |-> sizes[i], aligned |-> al[i]]]

---------------------------------------------------------------------------
\* Declarative side
AllAssignments(n, G) == [1..n -> 0..(G - 1)]
OPT(sizes, G) ==
  LET al == Aligned(sizes)
  IN Min({ Max({ LoadOf(al, a, r) : r \in 0..(G - 1) }) : a \in AllAssignments(Len(sizes), G) })

PartitionOK(sizes, G) == \A i \in 1..Len(sizes) : Owner(sizes, G)[i] \in 0..(G - 1)
\* replaying the assignment in largest-first order, every block went to a rank of least load at that time
\* (ties to the lowest rank)
LPTRule(sizes, G) ==
  LET al  == Aligned(sizes)
      ord == Order(al)
      ow  == Owner(sizes, G)
      loadBefore(k, r) == SumSeq([j \in 1..(k - 1) |-> IF ow[ord[j]] = r THEN al[ord[j]] ELSE 0])
  IN /\ \A k \in 1..(Len(ord) - 1) : al[ord[k]] >= al[ord[k + 1]]
     /\ \A k \in 1..Len(ord) : \A r \in 0..(G - 1) :
          \/ loadBefore(k, ow[ord[k]]) < loadBefore(k, r)
          \/ (loadBefore(k, ow[ord[k]]) = loadBefore(k, r) /\ ow[ord[k]] <= r)
FourThirds(sizes, G) == Len(sizes) = 0 \/ 3 * G * MaxLoad(sizes, G) <= (4 * G - 1) * OPT(sizes, G)
Spread(sizes, G) == Len(sizes) = 0 \/
  MaxLoad(sizes, G) - MinLoad(sizes, G) <= Max({Aligned(sizes)[i] : i \in 1..Len(sizes)})
ViewsOK(sizes, G) ==
  LET L == Layout(sizes, G)  seg == IF Len(sizes) = 0 THEN 0 ELSE MaxLoad(sizes, G)
  IN /\ \A i \in 1..Len(L) :
          /\ L[i].aligned >= L[i].bytes /\ L[i].aligned % 64 = 0 /\ L[i].aligned - L[i].bytes < 64
          /\ L[i].owner * seg <= L[i].off /\ L[i].off + L[i].aligned <= (L[i].owner + 1) * seg
     /\ \A i, j \in 1..Len(L) : i < j => (L[i].off + L[i].aligned <= L[j].off \/ L[j].off + L[j].aligned <= L[i].off)

Expected(sizes, G) == [lpt |-> LPT(sizes, G), layout |-> Layout(sizes, G),
                       seg |-> IF Len(sizes) = 0 THEN 0 ELSE MaxLoad(sizes, G)]
=============================================================================
