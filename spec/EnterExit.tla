-------------------------------- MODULE EnterExit --------------------------------
(***************************************************************************)
(* Growth beyond the listed properties: ParameterizeEnterExitContext        *)
(* (distributed_shampoo/utils/shampoo_utils.py) under nesting and           *)
(* exceptions, as a state machine.  Depth nested `with` blocks              *)
(*     with C1: with C2: ... with C_Depth: body                             *)
(* each C_i calling enter_i / exit_i on its object.  `plan` fixes which of  *)
(* the calls raise (chosen nondeterministically in Init).                   *)
(* log is the sequence of calls that actually reach the object.             *)
(***************************************************************************)
EXTENDS Naturals, Sequences, FiniteSets
CONSTANT Depth
VARIABLES pc, lvl, log, exc, plan
vars == <<pc, lvl, log, exc, plan>>
Lv == 1..Depth
NoExc == <<"none", 0>>

Init == /\ pc = "entering" /\ lvl = 1 /\ log = <<>> /\ exc = NoExc
        /\ plan \in [enter : [Lv -> BOOLEAN], exit : [Lv -> BOOLEAN], body : BOOLEAN]

\* __enter__ of level lvl: the enter method is called; if it raises, __exit__ of THIS level is not called
Enter == /\ pc = "entering" /\ lvl <= Depth
         /\ log' = Append(log, <<"enter", lvl>>)
         /\ IF plan.enter[lvl]
            THEN exc' = <<"enter", lvl>> /\ pc' = "unwinding" /\ lvl' = lvl - 1
            ELSE exc' = exc /\ pc' = "entering" /\ lvl' = lvl + 1
         /\ UNCHANGED plan
Body == /\ pc = "entering" /\ lvl = Depth + 1
        /\ exc' = IF plan.body THEN <<"body", 0>> ELSE exc
        /\ pc' = "unwinding" /\ lvl' = Depth /\ UNCHANGED <<log, plan>>
\* __exit__ of level lvl: always calls the exit method, returns None (never swallows); an exception raised by
\* the exit method replaces the one in flight
Exit == /\ pc = "unwinding" /\ lvl >= 1
        /\ log' = Append(log, <<"exit", lvl>>)
        /\ exc' = IF plan.exit[lvl] THEN <<"exit", lvl>> ELSE exc
        /\ lvl' = lvl - 1 /\ UNCHANGED <<pc, plan>>
Finish == pc = "unwinding" /\ lvl = 0 /\ pc' = "done" /\ UNCHANGED <<lvl, log, exc, plan>>
Next == Enter \/ Body \/ Exit \/ Finish
Spec == Init /\ [][Next]_vars /\ WF_vars(Next)

TypeOK == pc \in {"entering", "unwinding", "done"} /\ lvl \in 0..(Depth + 1)

Entered(i) == \E k \in 1..Len(log) : log[k] = <<"enter", i>>
Exited(i) == \E k \in 1..Len(log) : log[k] = <<"exit", i>>
Times(e) == Cardinality({k \in 1..Len(log) : log[k] = e})
\* at the end: a level is exited exactly once iff its enter succeeded; never twice; never without enter
ExitExactlyOnce ==
  pc = "done" => \A i \in Lv : /\ Times(<<"enter", i>>) <= 1 /\ Times(<<"exit", i>>) <= 1
                              /\ Exited(i) <=> (Entered(i) /\ ~plan.enter[i])
\* exits happen in the reverse order of the enters, enters in order 1, 2, ...
WellBracketed ==
  \A k, m \in 1..Len(log) : k < m =>
     /\ (log[k][1] = "enter" /\ log[m][1] = "enter") => log[k][2] < log[m][2]
     /\ (log[k][1] = "exit" /\ log[m][1] = "exit") => log[k][2] > log[m][2]
     /\ (log[k][1] = "exit" /\ log[m][1] = "enter") => FALSE
\* nothing is swallowed: the outcome is an exception iff some call that ran was planned to raise (or the body was)
NoPlannedRaiseRan ==
  /\ \A i \in Lv : Entered(i) => ~plan.enter[i]
  /\ \A j \in Lv : Exited(j) => ~plan.exit[j]
  /\ ~(plan.body /\ \A m \in Lv : ~plan.enter[m])
NothingSwallowed == pc = "done" => (exc = NoExc <=> NoPlannedRaiseRan)
\* and it is the LAST raising call in program order
OutermostExitWins ==
  pc = "done" => \A i \in Lv : (Exited(i) /\ plan.exit[i] /\ \A j \in Lv : (j < i /\ Exited(j)) => ~plan.exit[j]) => exc = <<"exit", i>>
Terminates == <>(pc = "done")
=============================================================================
