------------------------------ MODULE FlatShardsMC ------------------------------
(* Every list of up to MaxParams shapes (order <= MaxOrder, total numel <= MaxNumel) cut over 1..MaxN shard ranks: *)
(* the recovered pieces of all shard ranks partition every parameter (ExactlyOnceAcrossShards).                     *)
EXTENDS SplitRecovery
CONSTANTS MaxParams, MaxOrder, MaxNumel, MaxN
VARIABLES shapes, n
vars == <<shapes, n>>
Total(ss) == SumTo([i \in 1..Len(ss) |-> Prod(ss[i])], Len(ss))
Init == shapes = << <<1>> >> /\ n = 1
GrowDim(i, d) == LET s2 == [shapes EXCEPT ![i][d] = @ + 1] IN Total(s2) <= MaxNumel /\ shapes' = s2 /\ UNCHANGED n
AddDim(i) == Len(shapes[i]) < MaxOrder /\ shapes' = [shapes EXCEPT ![i] = Append(@, 1)] /\ UNCHANGED n
AddParam == Len(shapes) < MaxParams /\ Total(shapes) < MaxNumel /\ shapes' = Append(shapes, <<1>>) /\ UNCHANGED n
MoreRanks == n < MaxN /\ n' = n + 1 /\ UNCHANGED shapes
Next == (\E i \in 1..Len(shapes) : (\E d \in 1..Len(shapes[i]) : n = 1 /\ GrowDim(i, d)) \/ (n = 1 /\ AddDim(i)))
        \/ (n = 1 /\ AddParam) \/ MoreRanks
Spec == Init /\ [][Next]_vars
InvExactlyOnce == ExactlyOnceAcrossShards(shapes, n)
InvExactlyOnceAligned == ExactlyOnceAcrossShardsA(shapes, n, 4) /\ ExactlyOnceAcrossShardsA(shapes, n, 8)
InvDim0ExactlyOnce == Dim0ExactlyOnce(shapes, n)
InvShardsDisjoint == \A i \in 1..Len(shapes) : \A k \in 1..(n - 1) :
                        LET a == FlatShards(shapes, n)[k][i]  b == FlatShards(shapes, n)[k + 1][i]
                        IN (a[1] < a[2] /\ b[1] < b[2]) => a[2] = b[1]
=============================================================================
