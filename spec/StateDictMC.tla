------------------------------ MODULE StateDictMC ------------------------------
(* All nested dicts with at most MaxTerm terminals, depth <= MaxDepth, fan-out   *)
(* <= MaxFan, over the hostile key alphabet Keys, built terminal by terminal.    *)
EXTENDS StateDict
CONSTANTS Keys, MaxTerm, MaxDepth, MaxFan
VARIABLES T
Paths == UNION {[1..n -> Keys] : n \in 1..MaxDepth}
Children(tree, p) == {SubSeq(t.path, 1, Len(p) + 1) : t \in {x \in tree : IsStrictPrefix(p, x.path) \/ (p = <<>> /\ TRUE)}}
FanOK(tree) == \A t \in tree : \A n \in 0..(Len(t.path) - 1) :
                 Cardinality({SubSeq(x.path, 1, n + 1) : x \in {y \in tree : Len(y.path) > n /\ SubSeq(y.path, 1, n) = SubSeq(t.path, 1, n)}}) <= MaxFan
Init == T = {}
Add(p, k) == /\ Cardinality(T) < MaxTerm
             /\ LET T2 == T \cup {[path |-> p, kind |-> k]} IN WellFormed(T2) /\ FanOK(T2) /\ T' = T2
Next == \E p \in Paths : \E k \in {"leaf", "empty"} : Add(p, k)
Spec == Init /\ [][Next]_T
InvWellFormed == WellFormed(T)
InvRoundTrip == RoundTrip(T)
InvDrops == DropsOnlyLeafless(T)
InvInjective == InjectiveOn(Flatten(T), Enc)
\* global injectivity of the key text over every path in the bounds (one evaluation)
ASSUME InjectiveOn(Paths, Enc)
\* witnesses (vacuity guard): on the same alphabet the two named deviations are NOT injective
HasSurrogateKeys == [t |-> "s", v |-> <<HI, LO>>] \in Keys /\ [t |-> "s", v |-> <<AST>>] \in Keys
ASSUME ~InjectiveOn(Paths, EncNaive)
ASSUME HasSurrogateKeys => ~InjectiveOn(Paths, EncAscii)
=============================================================================
