--------------------------------- MODULE UtilsMC ---------------------------------
(* Every law of spec/Utils on every small input (TLC evaluates the ASSUMEs; no behaviour spec). *)
EXTENDS Utils, TLC
Iota(k, off) == [i \in 1..k |-> off + i]
Seqs(S, n) == UNION {[1..k -> S] : k \in 0..n}
ASSUME \A k \in 0..5 : \A sel \in [1..k -> BOOLEAN] :
          CompressLength(Iota(k, 0), sel) /\ CompressOrder(Iota(k, 0), sel) /\ Compress(Iota(k, 0), sel).ok
ASSUME \A k \in 0..4 : \A a, b \in [1..k -> BOOLEAN] : CompressCompose(Iota(k, 0), a, b)
ASSUME \A k, m \in 0..3 : \A a \in [1..k -> BOOLEAN], b \in [1..m -> BOOLEAN] : CompressConcat(Iota(k, 0), Iota(m, 10), a, b)
ASSUME \A k, m \in 0..4 : k # m => ~Compress(Iota(k, 0), [i \in 1..m |-> TRUE]).ok
ASSUME \A c \in Seqs(0..3, 4) : PairwiseTiles(c) /\ PairwisePartition(c, Iota(PrefixSum(c, Len(c)), 0))
ASSUME Pairwise(<<1, 3, 2>>) = <<<<0, 1>>, <<1, 4>>, <<4, 6>>>>        \* the docstring's example
ASSUME Pairwise(<<>>) = <<>>
ASSUME DtypeSize(TRUE, 1) = 1 /\ DtypeSize(FALSE, 8) = 1 /\ DtypeSize(FALSE, 16) = 2 /\ DtypeSize(FALSE, 32) = 4 /\ DtypeSize(FALSE, 64) = 8
ASSUME \A b \in 1..128 : DtypeSize(FALSE, b) * 8 >= b /\ (DtypeSize(FALSE, b) - 1) * 8 < b
E3 == {"z", "nz", "nan"}
Transpose(n, e) == [i \in 1..n |-> [j \in 1..n |-> e[j][i]]]
ASSUME \A n \in 0..3 : \A e \in [1..n -> [1..n -> E3]] :
          /\ DiagonalOfSmall(<<n, n>>, e)
          /\ CheckDiagonal(<<n, n>>, e).value = CheckDiagonal(<<n, n>>, Transpose(n, e)).value
          /\ CheckDiagonal(<<n, n>>, e).value <=> (\A i, j \in 1..n : e[i][j] # "z" => i = j)
ASSUME CheckDiagonal(<<2>>, <<>>).outcome = "reject" /\ CheckDiagonal(<<2, 3>>, <<>>).outcome = "reject" /\ CheckDiagonal(<<2, 2, 2>>, <<>>).outcome = "reject"
ASSUME PrintT("UtilsMC laws hold")
=============================================================================
