----------------------------- MODULE ShampooResume -----------------------------
(***************************************************************************)
(* Checkpoint / resume as a twin run (C09).  Copy A (variables of           *)
(* ShampooOpt) runs uninterrupted; copy B receives the same inputs and, at  *)
(* arbitrary points (any number of times: second-generation checkpoints),   *)
(* is stopped: its DURABLE part (what                  *)
(* distributed_state_dict carries: per-block tensors, step counters,        *)
(* param_groups) is saved and loaded into a freshly constructed optimizer,  *)
(* i.e. every VOLATILE variable (selector caches, masked lists, failure     *)
(* counters) restarts from its constructor value.  ResumeEquivalence holds  *)
(* at design level iff every volatile variable is re-derived before it is   *)
(* read.  Fault-free outcomes only: the failure counters are deliberately   *)
(* not checkpointed, which is outside C09's quantifier.                     *)
(***************************************************************************)
EXTENDS ShampooOpt
VARIABLES stB, raisedB, loadedAt
varsR == <<vars, stB, raisedB, loadedAt>>

Fresh(g, s) == [f \in DOMAIN InitG(g) |-> IF f \in DurableFields THEN s[f] ELSE InitG(g)[f]]

InitR == Init /\ stB = st /\ raisedB = "none" /\ loadedAt = -1

StepBoth(present, outc) ==
  /\ Step(present, outc)
  /\ LET r == RunGroups(1, stB, present, outc, [gi \in Groups |-> NotReached], {})
     IN stB' = r.st /\ raisedB' = r.raised
  /\ UNCHANGED loadedAt

SetHyperBoth(gi, key, v) ==
  /\ SetHyper(gi, key, v)
  /\ stB' = [stB EXCEPT ![gi].hy[key] = v] /\ raisedB' = "none" /\ UNCHANGED loadedAt

SaveLoad ==
  /\ loadedAt < nCalls                    \* not twice at the same point; any number of generations along a run
  /\ stB' = [gi \in Groups |-> Fresh(Cfg[gi], stB[gi])]
  /\ loadedAt' = nCalls
  /\ UNCHANGED <<vars, raisedB>>

NextR ==
  \/ \E present \in FnSet(Groups, [gi \in Groups |-> SUBSET ParamsOf(gi)]) :
       StepBoth(present, [gi \in Groups |-> AllOk(Cfg[gi])])
  \/ \E m \in {x \in HyperMoves : x[1] # 0} : SetHyperBoth(m[1], m[2], m[3])
  \/ SaveLoad
SpecR == InitR /\ [][NextR]_varsR

ResumeEquivalence == /\ \A gi \in Groups : Durable(st[gi]) = Durable(stB[gi])
                     /\ raised = raisedB
\* the resumed copy itself satisfies every step property (alignment after the volatile reset etc.) - checked through `bad`
\* of copy A only for A; B's alignment is implied by Durable equality (source sets are durable fields)
ViewR == <<ViewLean, [gi \in Groups |-> <<stB[gi].dPrev, stB[gi].lsel, stB[gi].prev, stB[gi].mP, stB[gi].mK, stB[gi].mF, stB[gi].mM,
                                            stB[gi].dMP, stB[gi].step, stB[gi].hy, stB[gi].kSrc, stB[gi].fSrc, stB[gi].mSrc, stB[gi].pSrc>>],
           raisedB, loadedAt>>
=============================================================================
