------------------------------ MODULE MatrixSolvers ------------------------------
(***************************************************************************)
(* Control state machines of the coupled Newton and coupled higher-order    *)
(* inverse-root solvers (C10) with the residual abstracted to a small       *)
(* ordered domain.  FlagSound, GuardSound, Tf32Restored, termination.       *)
(***************************************************************************)
EXTENDS MatrixFn

\* ---- (c) control state machines of the iterative solvers --------------------------------------------
\* residual levels: 0 = "<= tolerance", 1 = "> tolerance and small (< 1e-3)", 2.. = larger;  ErrMax = top level;
\* ErrMax + 1 = NaN (every comparison with it is false, which is how the code's loops and flag expressions see it)
\* true-error levels: 0 = "<= guard (0.1)", 1 = "> guard"
CONSTANTS MaxIter, ErrMax
VARIABLES solver, pc, it, err, flag, trueErr, tf32, tf32Saved, result, badX
mvars == <<solver, pc, it, err, flag, trueErr, tf32, tf32Saved, result, badX>>

NaNLevel == ErrMax + 1
Errs == 0..NaNLevel
GtTol(e) == e >= 1 /\ e # NaNLevel            \* error > tolerance
LeTol(e) == e = 0                               \* error <= tolerance
MInit == /\ solver \in {"newton", "higher"} /\ pc = "start" /\ it = 0 /\ err \in Errs /\ flag = "none"
         /\ trueErr = 0 /\ tf32 \in BOOLEAN /\ tf32Saved = FALSE /\ result = "none" /\ badX \in BOOLEAN

\* Newton: while err > tol and it < max: iterate; flag from the final error
NewtonLoop ==
  /\ solver = "newton" /\ pc = "start"
  /\ IF GtTol(err) /\ it < MaxIter
     THEN /\ it' = it + 1 /\ err' \in Errs /\ UNCHANGED <<pc, flag, result>>
     ELSE /\ flag' = (IF LeTol(err) THEN "CONVERGED" ELSE "REACHED_MAX_ITERS") /\ pc' = "done" /\ result' = "returned"
          /\ UNCHANGED <<it, err>>
  /\ UNCHANGED <<solver, trueErr, tf32, tf32Saved, badX>>

\* higher order: save tf32, (input may be rejected), one mandatory Newton step, Horner loop with early stop, guard, NaN check, finally
HoEnter == /\ solver = "higher" /\ pc = "start" /\ tf32Saved' = tf32 /\ tf32' = FALSE /\ pc' = "entered"
           /\ UNCHANGED <<solver, it, err, flag, trueErr, result, badX>>
HoRejectInput == /\ pc = "entered" /\ result' = "ArithmeticError" /\ pc' = "finally"      \* non-finite norm of the input
                 /\ UNCHANGED <<solver, it, err, flag, trueErr, tf32, tf32Saved, badX>>
HoFirstNewton == /\ pc = "entered" /\ it' = 1 /\ err' \in Errs /\ pc' = "loop"
                 /\ UNCHANGED <<solver, flag, trueErr, tf32, tf32Saved, result, badX>>
HoLoop ==
  /\ pc = "loop"
  /\ IF GtTol(err) /\ it < MaxIter
     THEN \E new \in Errs :
            /\ it' = it + 1
            /\ IF (new # NaNLevel /\ new > err) \/ (new = err /\ err = 1)   \* diverging (> 1.2 x) or stagnating below 1e-3
               THEN flag' = "EARLY_STOP" /\ pc' = "guard" /\ UNCHANGED err
               ELSE err' = new /\ UNCHANGED <<flag, pc>>
     ELSE /\ flag' = (IF GtTol(err) THEN "REACHED_MAX_ITERS" ELSE "CONVERGED") /\ pc' = "guard" /\ UNCHANGED <<it, err>>
  /\ UNCHANGED <<solver, trueErr, tf32, tf32Saved, result, badX>>
HoGuard == /\ pc = "guard" /\ trueErr' \in {0, 1}
           /\ IF trueErr' = 1 THEN result' = "ArithmeticError" /\ pc' = "finally"
              \* NaN/Inf after powering; a NaN residual comes with NaN in X, which the same final check rejects
              ELSE IF badX \/ err = NaNLevel THEN result' = "ArithmeticError" /\ pc' = "finally"
              ELSE result' = "returned" /\ pc' = "finally"
           /\ UNCHANGED <<solver, it, err, flag, tf32, tf32Saved, badX>>
HoFinally == /\ pc = "finally" /\ tf32' = tf32Saved /\ pc' = "done"
             /\ UNCHANGED <<solver, it, err, flag, trueErr, tf32Saved, result, badX>>
MNext == NewtonLoop \/ HoEnter \/ HoRejectInput \/ HoFirstNewton \/ HoLoop \/ HoGuard \/ HoFinally
         \/ (pc = "done" /\ UNCHANGED mvars)
MSpec == MInit /\ [][MNext]_mvars /\ WF_mvars(MNext)

FlagSound == pc = "done" /\ result = "returned" =>
               /\ (flag = "CONVERGED" => LeTol(err))
               /\ (flag = "REACHED_MAX_ITERS" => ~LeTol(err) /\ (it = MaxIter \/ err = NaNLevel))
               /\ flag \in {"CONVERGED", "REACHED_MAX_ITERS", "EARLY_STOP"}
GuardSound == (pc = "done" /\ solver = "higher" /\ result = "returned") => (trueErr = 0 /\ ~badX)
Tf32Restored == (pc = "done" /\ solver = "higher") => tf32 = tf32Saved
IterBound == it <= MaxIter
Terminates == <>(pc = "done")
=============================================================================
