-------------------------------- MODULE DistTrace --------------------------------
(***************************************************************************)
(* Validation of the per-rank collective logs recorded from simulated-rank  *)
(* runs of the real distributors (C06 / C07 / C08).  A case is              *)
(*   [W, GS, pgs : Seq([owner, seg]) one entry per parameter group,         *)
(*    masks : Seq over steps of Seq over parameter groups of Seq(block),    *)
(*    logs : Seq(per-rank log)]                                             *)
(*   per-rank log = [created : Seq(Seq(rank)), gathers : Seq([grp,inb,outb])]*)
(* The verdict is the smallest explanation:                                 *)
(*   "ok"                    every rank issued the sequences the repaired    *)
(*                           design prescribes (creation: all ranks equal)   *)
(*   deviation name(s)       the logs are exactly what the specification     *)
(*                           predicts with that named deviation switched on  *)
(*   "unexplained"           neither                                         *)
(***************************************************************************)
EXTENDS DistCore, Json, IOUtils, TLC

ToSet(s) == {s[i] : i \in 1..Len(s)}
Cfgs(x, dev) == [g \in 1..Len(x.pgs) |-> [W |-> x.W, GS |-> x.GS, owner |-> x.pgs[g].owner, seg |-> x.pgs[g].seg, dev |-> dev]]
Masks(x) == [k \in 1..Len(x.masks) |-> [g \in 1..Len(x.pgs) |-> ToSet(x.masks[k][g])]]

CreationsAgree(x) == \A r \in 1..x.W : x.logs[r].created = x.logs[1].created
CreationsMatch(x, dev) == \A r \in 1..x.W : x.logs[r].created = CreationsMultiC(Cfgs(x, dev), r - 1, 1, {})
GathersMatch(x, dev) == \A r \in 1..x.W : x.logs[r].gathers = GathersMultiC(Cfgs(x, dev), r - 1, Masks(x), 1)
Starves(x) == \E k \in 1..Len(x.masks) : \E g \in 1..Len(x.pgs) : \E r \in 0..(x.W - 1) : StarvedC(Cfgs(x, {})[g], r, ToSet(x.masks[k][g]))

Verdict(x) ==
  LET cre == IF CreationsAgree(x) THEN "ok"
             ELSE IF CreationsMatch(x, {"LazyOwnerMesh"}) THEN "LazyOwnerMesh" ELSE "unexplained"
      gat == IF GathersMatch(x, {}) THEN "ok"
             ELSE IF Starves(x) /\ GathersMatch(x, {"SkipOnLocalEmpty"}) THEN "SkipOnLocalEmpty" ELSE "unexplained"
  IN [creation |-> cre, gathers |-> gat, starves |-> Starves(x),
      expected_gathers |-> [r \in 1..x.W |-> Len(GathersMultiC(Cfgs(x, {}), r - 1, Masks(x), 1))]]

Cases == JsonDeserialize(IOEnv.CASES)
ASSUME JsonSerialize(IOEnv.OUT, [i \in 1..Len(Cases) |-> Verdict(Cases[i])])
=============================================================================
