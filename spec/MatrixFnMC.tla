------------------------------- MODULE MatrixFnMC -------------------------------
EXTENDS MatrixSolvers
\* spectra grid: eigenvalues from a set including slightly negative, zero, repeated, large; sizes 1..3; eps in {1/16, 1}
Vals == {R(-1, 8), R(0, 1), R(1, 8), R(1, 2), R(1, 1), R(3, 1), R(64, 1)}
Spectra == UNION {[1..n -> Vals] : n \in 1..3}
Epsilons == {R(1, 16), R(1, 1)}
ASSUME \A s \in Spectra : \A e \in Epsilons : TransferAgreement(s, e)
ASSUME \A s \in Spectra : \A e \in Epsilons : EigenPositivity(s, e)
ASSUME \A s \in Spectra : \A e \in Epsilons : StabilityIsIdentity(s, e)
ASSUME \A s \in Spectra : \A e \in Epsilons : OrderPreserved(s, e)
\* the diagonal / iterative paths are NOT protected against negative input: witness (vacuity guard for EigenPositivity)
ASSUME \E s \in Spectra : \E e \in Epsilons : ~Le(e, Regularised("diagonal", s, e, Zero)[1])
\* dispatch: every descriptor has exactly one outcome and shape errors win over configuration errors
Descs == [numel1 : BOOLEAN, ndim2 : BOOLEAN, square : BOOLEAN, isdiag : BOOLEAN,
          cfg : {"eigen", "eigen_stab", "newton", "higher", "other"}, rootpos : BOOLEAN, rootint : BOOLEAN]
ASSUME \A d \in Descs : (~d.numel1 /\ (~d.ndim2 \/ ~d.square)) => InverseRootDispatch(d) = "ValueError"
ASSUME \A d \in Descs : d.numel1 => InverseRootDispatch(d) = "scalar"
ASSUME \A d \in Descs : InverseRootDispatch(d) = "NotImplementedError" => d.cfg = "other"
=============================================================================
