-------------------------------- MODULE CtorMC --------------------------------
(* One- and two-at-a-time variation of every hyperparameter around a valid       *)
(* baseline: the state is the hyperparameter record plus the set of fields       *)
(* changed so far (at most MaxChanged).                                          *)
EXTENDS Ctor, TLC
CONSTANTS MaxChanged
VARIABLES h, changed

FloatGrid == {Rat(-1, 10), Rat(0, 1), Rat(1, 100), Rat(1, 2), Rat(9, 10), Rat(1, 1), Rat(11, 10), Rat(-1, 1), Rat(-2, 1), NaN, PInf, NInf}
IntGrid   == {-2, -1, 0, 1, 2, 5, 1024}
Overrides == {[k |-> "int", v |-> -1], [k |-> "int", v |-> 0], [k |-> "int", v |-> 2],
              [k |-> "list", v |-> <<>>], [k |-> "list", v |-> <<0, 0>>], [k |-> "list", v |-> <<2, -1>>], [k |-> "list", v |-> <<1, 2, 3>>]}
Ignoreds  == {<<>>, <<0>>, <<0, 0>>, <<0, 1>>}
Grafts    == {[type |-> t, eps |-> e, beta2 |-> b] : t \in {"none", "sgd", "adagrad", "rmsprop", "adam", "unknown"},
                                                      e \in {Rat(-1, 1), Rat(0, 1), Rat(1, 1000000), NaN},
                                                      b \in {Rat(0, 1), Rat(1, 2), Rat(1, 1), Rat(11, 10), NaN}}
Baseline == [lr |-> Rat(1, 100), beta1 |-> Rat(9, 10), beta2 |-> Rat(1, 1), beta3 |-> Rat(-1, 1), eps |-> Rat(1, 1000000),
             momentum |-> Rat(0, 1), dampening |-> Rat(0, 1), wd |-> Rat(0, 1), maxdim |-> 1024, freq |-> 1, start |-> -1,
             override |-> [k |-> "int", v |-> 0], ignored |-> <<>>, tol |-> 3,
             graft |-> [type |-> "none", eps |-> Rat(1, 1000000), beta2 |-> Rat(1, 1)], pc |-> "shampoo", dc |-> "none"]
FloatFields == {"lr", "beta1", "beta2", "beta3", "eps", "momentum", "dampening", "wd"}
IntFields   == {"maxdim", "freq", "start", "tol"}
Domain(f) == IF f \in FloatFields THEN FloatGrid
             ELSE IF f \in IntFields THEN IntGrid
             ELSE IF f = "override" THEN Overrides
             ELSE IF f = "ignored" THEN Ignoreds
             ELSE IF f = "graft" THEN Grafts
             ELSE IF f = "pc" THEN {"shampoo", "soap", "unknown"}
             ELSE {"none", "unknown"}
Fields == FloatFields \cup IntFields \cup {"override", "ignored", "graft", "pc", "dc"}

Init == h = Baseline /\ changed = {}
Change(f, v) == /\ f \notin changed /\ Cardinality(changed) < MaxChanged /\ v # h[f]
                /\ h' = [h EXCEPT ![f] = v] /\ changed' = changed \cup {f}
Next == \E f \in Fields : \E v \in Domain(f) : Change(f, v)
Spec == Init /\ [][Next]_<<h, changed>>

InvResolved == ResolvedInRange(h)
\* each single value check is necessary: leaving the documented range in exactly one field is always rejected,
\* and the baseline is accepted
InvBaseline == changed = {} => Outcome(h) = "ok"
InvOutcomeDomain == Outcome(h) \in {"ok", "ValueError", "NotImplementedError"}
\* ValueError has priority over NotImplementedError (hyperparameter checks run before any config dispatch)
InvPriority == (Outcome(h) = "NotImplementedError") => ValueOK(h)
=============================================================================
