-------------------------------- MODULE DistCore --------------------------------
(***************************************************************************)
(* Pure operators shared by ShampooDist (model checking) and DistTrace      *)
(* (validation of per-rank collective logs).  A configuration is a record   *)
(*   c = [W, GS, owner : Seq(group rank) per block, dev : set of deviation  *)
(*        names, seg : bytes of one rank's segment of the gather buffer]    *)
(***************************************************************************)
EXTENDS Naturals, Sequences, FiniteSets

NGroupsC(c) == c.W \div c.GS
GRankC(c, r) == r % c.GS
GroupOfC(c, r) == r \div c.GS
MembersC(c, g) == [i \in 1..c.GS |-> g * c.GS + (i - 1)]
OwnedC(c, r) == {b \in 1..Len(c.owner) : c.owner[b] = GRankC(c, r)}
ColumnC(c, q) == [i \in 1..NGroupsC(c) |-> q + (i - 1) * c.GS]

SubgroupCreationsC(c) == IF c.GS = c.W THEN <<>> ELSE [j \in 1..NGroupsC(c) |-> MembersC(c, j - 1)]
MeshNeededC(c) == NGroupsC(c) < c.W
MeshCreationsC(c, r) ==
  IF ~MeshNeededC(c) THEN <<>>
  ELSE IF "LazyOwnerMesh" \in c.dev THEN (IF OwnedC(c, r) # {} THEN <<ColumnC(c, GRankC(c, r))>> ELSE <<>>)
  ELSE [q \in 1..c.GS |-> ColumnC(c, q - 1)]
CreationsC(c, r) == SubgroupCreationsC(c) \o MeshCreationsC(c, r)

\* does rank r take part in the gather of a step whose set of blocks with a gradient is `active`?
ParticipatesC(c, r, active) ==
  IF "SkipOnLocalEmpty" \in c.dev THEN OwnedC(c, r) \cap active # {} ELSE active # {}
StarvedC(c, r, active) == active # {} /\ OwnedC(c, r) \cap active = {}

\* the sequence of gather records rank r issues over the mask history (masks: Seq of sets of blocks)
RECURSIVE GathersC(_, _, _, _)
GathersC(c, r, masks, k) ==
  IF k > Len(masks) THEN <<>>
  ELSE (IF ParticipatesC(c, r, masks[k])
        THEN << [grp |-> MembersC(c, GroupOfC(c, r)), inb |-> c.seg, outb |-> c.seg * c.GS] >>
        ELSE <<>>) \o GathersC(c, r, masks, k + 1)

\* ---- several parameter groups: cs = Seq of configurations (same W, GS; own owner / seg), masks[k][g] -------------
\* every distributor creates its subgroups again; DeviceMeshes are cached per process, so a mesh is created once
SetOfSeq(s) == {s[i] : i \in 1..Len(s)}
RECURSIVE CreationsMultiC(_, _, _, _)
CreationsMultiC(cs, r, g, seen) ==
  IF g > Len(cs) THEN <<>>
  ELSE LET mesh == SelectSeq(MeshCreationsC(cs[g], r), LAMBDA m : m \notin seen)
       IN SubgroupCreationsC(cs[g]) \o mesh \o CreationsMultiC(cs, r, g + 1, seen \cup SetOfSeq(mesh))
RECURSIVE GathersOfStepC(_, _, _, _)
GathersOfStepC(cs, r, stepmasks, g) ==
  IF g > Len(cs) THEN <<>>
  ELSE (IF ParticipatesC(cs[g], r, stepmasks[g])
        THEN << [grp |-> MembersC(cs[g], GroupOfC(cs[g], r)), inb |-> cs[g].seg, outb |-> cs[g].seg * cs[g].GS] >>
        ELSE <<>>) \o GathersOfStepC(cs, r, stepmasks, g + 1)
RECURSIVE GathersMultiC(_, _, _, _)
GathersMultiC(cs, r, masks, k) ==
  IF k > Len(masks) THEN <<>> ELSE GathersOfStepC(cs, r, masks[k], 1) \o GathersMultiC(cs, r, masks, k + 1)

\* ---- 2-D meshes (HSDP / HybridShard): which DeviceMeshes a rank asks for, and which of them it has to create --------------
\* grid : Seq over the replicate index of Seq over the shard index of ranks, exactly as the user built the mesh (any arrangement);
\* gs   : ranks per distribution group, divides Len(grid).
\* __init__ asks for one 2-D mesh per shard column (all ranks enumerate all columns); allocating a block's state asks for the 2-D
\* mesh of the rank's own column again, built from dist.get_process_group_ranks(), i.e. in ASCENDING rank order.  get_device_mesh
\* is cached per process, and a cache miss creates process groups - a collective over the world.  Named deviation
\* "MeshOrderEnumeration" (D11): __init__ enumerates each column in the order of the user's mesh.
RECURSIVE InsertSorted(_, _)
InsertSorted(x, s) == IF s = <<>> THEN <<x>> ELSE IF x <= Head(s) THEN <<x>> \o s ELSE <<Head(s)>> \o InsertSorted(x, Tail(s))
RECURSIVE Ascending(_)
Ascending(s) == IF s = <<>> THEN <<>> ELSE InsertSorted(Head(s), Ascending(Tail(s)))
GridColumn(grid, c) == [i \in 1..Len(grid) |-> grid[i][c]]
Reshape(s, gs) == [i \in 1..(Len(s) \div gs) |-> [j \in 1..gs |-> s[(i - 1) * gs + j]]]
InitMeshC(grid, gs, c, dev) ==
  Reshape(IF "MeshOrderEnumeration" \in dev THEN GridColumn(grid, c) ELSE Ascending(GridColumn(grid, c)), gs)
AllocMeshC(grid, gs, c) == Reshape(Ascending(GridColumn(grid, c)), gs)
ColumnOfRankC(grid, r) == CHOOSE c \in 1..Len(grid[1]) : \E i \in 1..Len(grid) : grid[i][c] = r
MeshRequestsC(grid, gs, r, dev) ==
  [c \in 1..Len(grid[1]) |-> InitMeshC(grid, gs, c, dev)] \o << AllocMeshC(grid, gs, ColumnOfRankC(grid, r)) >>
RECURSIVE MissesOf(_, _)
MissesOf(reqs, seen) ==
  IF reqs = <<>> THEN <<>>
  ELSE IF Head(reqs) \in seen THEN MissesOf(Tail(reqs), seen)
       ELSE <<Head(reqs)>> \o MissesOf(Tail(reqs), seen \cup {Head(reqs)})
MeshMissesC(grid, gs, r, dev) == MissesOf(MeshRequestsC(grid, gs, r, dev), {})
RanksOfGrid(grid) == UNION {{grid[i][c] : c \in 1..Len(grid[1])} : i \in 1..Len(grid)}
MeshCreationAgreementC(grid, gs, dev) ==
  \A r, q \in RanksOfGrid(grid) : MeshMissesC(grid, gs, r, dev) = MeshMissesC(grid, gs, q, dev)
\* a block owned by group rank j has its state on column j of the allocation mesh; the owner's rank inside its communication group
\* (process-group ranks are ascending) must be j
CommsRowC(grid, gs, r, dev) ==
  LET m == InitMeshC(grid, gs, ColumnOfRankC(grid, r), dev) IN m[CHOOSE i \in 1..Len(m) : \E j \in 1..gs : m[i][j] = r]
GroupRankC(grid, gs, r, dev) ==
  LET row == Ascending(CommsRowC(grid, gs, r, dev)) IN (CHOOSE j \in 1..gs : row[j] = r) - 1
StateOnOwnerC(grid, gs, dev) ==
  \A r \in RanksOfGrid(grid) :
     LET a == AllocMeshC(grid, gs, ColumnOfRankC(grid, r)) IN \E i \in 1..Len(a) : a[i][GroupRankC(grid, gs, r, dev) + 1] = r
=============================================================================
