-------------------------------- MODULE DistCore --------------------------------
(***************************************************************************)
(* Pure operators shared by ShampooDist (model checking) and DistTrace      *)
(* (validation of per-rank collective logs).  A configuration is a record   *)
(*   c = [W, GS, owner : Seq(group rank) per block, dev : set of deviation  *)
(*        names, seg : bytes of one rank's segment of the gather buffer]    *)
(***************************************************************************)
EXTENDS Naturals, Sequences, FiniteSets

NGroupsC(c) == c.W \div c.GS
GRankC(c, r) == r % c.GS
GroupOfC(c, r) == r \div c.GS
MembersC(c, g) == [i \in 1..c.GS |-> g * c.GS + (i - 1)]
OwnedC(c, r) == {b \in 1..Len(c.owner) : c.owner[b] = GRankC(c, r)}
ColumnC(c, q) == [i \in 1..NGroupsC(c) |-> q + (i - 1) * c.GS]

SubgroupCreationsC(c) == IF c.GS = c.W THEN <<>> ELSE [j \in 1..NGroupsC(c) |-> MembersC(c, j - 1)]
MeshNeededC(c) == NGroupsC(c) < c.W
MeshCreationsC(c, r) ==
  IF ~MeshNeededC(c) THEN <<>>
  ELSE IF "LazyOwnerMesh" \in c.dev THEN (IF OwnedC(c, r) # {} THEN <<ColumnC(c, GRankC(c, r))>> ELSE <<>>)
  ELSE [q \in 1..c.GS |-> ColumnC(c, q - 1)]
CreationsC(c, r) == SubgroupCreationsC(c) \o MeshCreationsC(c, r)

\* does rank r take part in the gather of a step whose set of blocks with a gradient is `active`?
ParticipatesC(c, r, active) ==
  IF "SkipOnLocalEmpty" \in c.dev THEN OwnedC(c, r) \cap active # {} ELSE active # {}
StarvedC(c, r, active) == active # {} /\ OwnedC(c, r) \cap active = {}

\* the sequence of gather records rank r issues over the mask history (masks: Seq of sets of blocks)
RECURSIVE GathersC(_, _, _, _)
GathersC(c, r, masks, k) ==
  IF k > Len(masks) THEN <<>>
  ELSE (IF ParticipatesC(c, r, masks[k])
        THEN << [grp |-> MembersC(c, GroupOfC(c, r)), inb |-> c.seg, outb |-> c.seg * c.GS] >>
        ELSE <<>>) \o GathersC(c, r, masks, k + 1)

\* ---- several parameter groups: cs = Seq of configurations (same W, GS; own owner / seg), masks[k][g] -------------
\* every distributor creates its subgroups again; DeviceMeshes are cached per process, so a mesh is created once
SetOfSeq(s) == {s[i] : i \in 1..Len(s)}
RECURSIVE CreationsMultiC(_, _, _, _)
CreationsMultiC(cs, r, g, seen) ==
  IF g > Len(cs) THEN <<>>
  ELSE LET mesh == SelectSeq(MeshCreationsC(cs[g], r), LAMBDA m : m \notin seen)
       IN SubgroupCreationsC(cs[g]) \o mesh \o CreationsMultiC(cs, r, g + 1, seen \cup SetOfSeq(mesh))
RECURSIVE GathersOfStepC(_, _, _, _)
GathersOfStepC(cs, r, stepmasks, g) ==
  IF g > Len(cs) THEN <<>>
  ELSE (IF ParticipatesC(cs[g], r, stepmasks[g])
        THEN << [grp |-> MembersC(cs[g], GroupOfC(cs[g], r)), inb |-> cs[g].seg, outb |-> cs[g].seg * cs[g].GS] >>
        ELSE <<>>) \o GathersOfStepC(cs, r, stepmasks, g + 1)
RECURSIVE GathersMultiC(_, _, _, _)
GathersMultiC(cs, r, masks, k) ==
  IF k > Len(masks) THEN <<>> ELSE GathersOfStepC(cs, r, masks[k], 1) \o GathersMultiC(cs, r, masks, k + 1)
=============================================================================
