------------------------------ MODULE ShampooStep ------------------------------
(***************************************************************************)
(* One parameter group of DistributedShampoo as an abstract state machine:  *)
(* the operators below are the code's functions, in the code's order, over  *)
(* a state that records WHERE every buffer's content came from, never the   *)
(* numbers (C01-C04, C09, C13, C18; numbers are produced by the harness'    *)
(* float64 reference, driven by the control decisions taken here).          *)
(*                                                                          *)
(* Group configuration g (a record, so that one TLC run can validate traces *)
(* of many different optimizers):                                           *)
(*   pOf   : Seq(Nat)   local block i belongs to parameter pOf[i]           *)
(*   nf    : Seq(Nat)   number of preconditioned dims (factors) of block i  *)
(*   freq, start, tol : Nat ; graft : BOOLEAN ; kind : "shampoo" | "soap"   *)
(*   hasFilt, hasMom : BOOLEAN  (beta1 # 0 / momentum # 0 at construction:  *)
(*                               the buffers and their lists exist)         *)
(*                                                                          *)
(* Mechanism state mirrors the code (two levels of selector caching, masked *)
(* lists that are re-compressed only when the local selector changes, the   *)
(* failure counters as a local list and a masked list that is the local     *)
(* list until the first re-compression and a copy afterwards).  Ghost state *)
(* (failRun) says what the property demands.  Known deviations of the code  *)
(* from the properties are NAMED switches in the constant set Deviations:   *)
(*   "CounterLostOnRemask"        (D3) counters updated in the masked copy  *)
(*                                     only; re-compression re-reads the    *)
(*                                     never-updated local list             *)
(*   "RecompressOnlyIfNonZeroNow" (D7) momentum / filtered-grad lists are   *)
(*                                     re-compressed only if the value is   *)
(*                                     non-zero at that moment              *)
(*   "FirstFactorDecidesBasis"    (D6) SOAP rotates iff basis 1 is non-zero *)
(* With Deviations = {} the module describes the repaired code.             *)
(***************************************************************************)
EXTENDS Naturals, Sequences, FiniteSets, TLC, SequencesExt
CONSTANT Deviations

Dev(d) == d \in Deviations

NL(g) == Len(g.pOf)
Ident(n) == [i \in 1..n |-> i]
Local(g) == Ident(NL(g))
BlocksOf(g) == 1..NL(g)

RECURSIVE Compress(_, _)
Compress(seq, sel) ==
  IF seq = <<>> THEN <<>>
  ELSE (IF Head(sel) THEN <<Head(seq)>> ELSE <<>>) \o Compress(Tail(seq), Tail(sel))

NoSel == [some |-> FALSE, v |-> <<>>]
Some(s) == [some |-> TRUE, v |-> s]
RangeS(s) == {s[i] : i \in 1..Len(s)}

\* precondition_frequency lives in param_groups and is read at every step: the period in force is st.hy.freq (initially g.freq)
RefreshF(g, f, s) == (s % f = 0 /\ s > g.start) \/ s = g.start
Refresh(g, s)  == RefreshF(g, g.freq, s)
UseGraft(g, s) == s < g.start /\ g.graft

---------------------------------------------------------------------------
\* hyperparameters that may be changed in param_groups between steps: index 0 means the value 0.0,
\* indices >= 1 are distinct non-zero values (the harness owns the table of concrete numbers)
InitHyper(g) == [mom |-> IF g.hasMom THEN 1 ELSE 0, b1 |-> IF g.hasFilt THEN 1 ELSE 0, wd |-> g.wd0, lr |-> 1,
                 freq |-> g.freq]          \* freq is the number itself, not an index

InitG(g) ==
  [ step |-> 0,
    \* volatile mechanism state
    dPrev |-> NoSel, lsel |-> [i \in 1..NL(g) |-> TRUE], prev |-> NoSel,
    dMP |-> Local(g), mP |-> Local(g), mK |-> Local(g), mG |-> Local(g), mF |-> Local(g), mM |-> Local(g),
    lCnt |-> [i \in 1..NL(g) |-> 0], mCnt |-> [i \in 1..NL(g) |-> 0], aliased |-> TRUE,
    \* hyperparameters (live in param_groups; saved with the checkpoint)
    hy |-> InitHyper(g),
    \* durable per-block state: counts and source sets
    facN   |-> [b \in BlocksOf(g) |-> 0],  kSrc |-> [b \in BlocksOf(g) |-> {}],
    rootAt |-> [b \in BlocksOf(g) |-> [k \in 1..g.nf[b] |-> 0]],
    rootFrom |-> [b \in BlocksOf(g) |-> [k \in 1..g.nf[b] |-> 0]],
    fN |-> [b \in BlocksOf(g) |-> 0], fSrc |-> [b \in BlocksOf(g) |-> {}],
    mN |-> [b \in BlocksOf(g) |-> 0], mSrc |-> [b \in BlocksOf(g) |-> {}],
    gN |-> [b \in BlocksOf(g) |-> 0], gSrc |-> [b \in BlocksOf(g) |-> {}],
    cevN |-> [b \in BlocksOf(g) |-> 0],
    pN |-> [b \in BlocksOf(g) |-> 0], pSrc |-> [b \in BlocksOf(g) |-> {}],
    poison |-> [b \in BlocksOf(g) |-> FALSE],
    \* ghost
    failRun |-> [b \in BlocksOf(g) |-> 0] ]

DurableFields == {"step", "hy", "facN", "kSrc", "rootAt", "rootFrom", "fN", "fSrc", "mN", "mSrc", "gN", "gSrc",
                  "cevN", "pN", "pSrc", "poison"}
Durable(st) == [f \in DurableFields |-> st[f]]
BlockDurable(st, b) == <<st.facN[b], st.kSrc[b], st.rootAt[b], st.rootFrom[b], st.fN[b], st.fSrc[b], st.mN[b], st.mSrc[b],
                         st.gN[b], st.gSrc[b], st.cevN[b], st.pN[b], st.pSrc[b], st.poison[b]>>

---------------------------------------------------------------------------
\* 1. Distributor.merge_and_block_gradients: the gradient list is rebuilt every step from the gradients that
\*    exist; the local selector and the distributor's masked parameter list only when the global selector changed
GlobalSel(g, present) == [i \in 1..NL(g) |-> g.pOf[i] \in present]
MergeAndBlock(g, st, present) ==
  LET gsel == GlobalSel(g, present)
  IN IF st.dPrev = Some(gsel) THEN st
     ELSE [st EXCEPT !.dPrev = Some(gsel), !.lsel = gsel, !.dMP = Compress(Local(g), gsel)]
GradList(g, present) == Compress(Local(g), GlobalSel(g, present))

\* 2. DistributedShampoo._mask_state_lists
MaskStateLists(g, st) ==
  IF st.prev = Some(st.lsel) THEN st
  ELSE LET C(l) == Compress(l, st.lsel)
           recF == IF Dev("RecompressOnlyIfNonZeroNow") THEN st.hy.b1 # 0 ELSE g.hasFilt
           recM == IF Dev("RecompressOnlyIfNonZeroNow") THEN st.hy.mom # 0 ELSE g.hasMom
       IN [st EXCEPT !.prev = Some(st.lsel),
                     !.mP = st.dMP,
                     !.mK = C(Local(g)), !.mG = C(Local(g)),
                     !.mF = IF recF THEN C(Local(g)) ELSE @,
                     !.mM = IF recM THEN C(Local(g)) ELSE @,
                     !.mCnt = C(st.lCnt), !.aliased = FALSE]

---------------------------------------------------------------------------
\* outcomes of this step's matrix computations, chosen by the environment:
\*   outc[b] = [inf |-> BOOLEAN (this step's gradient of b is non-finite), f |-> [1..nf[b] -> {"ok","fail","nan"}]]
AllOk(g) == [b \in BlocksOf(g) |-> [inf |-> FALSE, f |-> [k \in 1..g.nf[b] |-> "ok"]]]

\* 8. _amortized_computation over the masked Kronecker list, in order.  Returns [st, raised, calls, at]
\*    calls = sequence of <<block, factor, outcome>> in the order the matrix routine was invoked
RECURSIVE Amort(_, _, _, _, _, _)
Amort(g, st, i, outc, s, calls) ==
  IF i > Len(st.mK) THEN [st |-> st, raised |-> "none", calls |-> calls]
  ELSE LET b == st.mK[i]
           n == g.nf[b]
           bad == st.poison[b]
       IN IF bad /\ n >= 1
          THEN \* factor matrix contains NaN/Inf: PreconditionerValueError before the routine is called
               [st |-> st, raised |-> "value", calls |-> calls]
          ELSE
          LET nanAt == {k \in 1..n : outc[b].f[k] = "nan"}
              firstNan == IF nanAt = {} THEN n + 1 ELSE CHOOSE k \in nanAt : \A j \in nanAt : k <= j
              done == IF firstNan <= n THEN firstNan ELSE n      \* the routine is invoked for factors 1..done
              newCalls == calls \o [k \in 1..done |-> <<b, k, outc[b].f[k]>>]
              st1 == [st EXCEPT !.rootAt[b] = [k \in 1..n |-> IF k < firstNan /\ outc[b].f[k] = "ok" THEN s ELSE @[k]],
                                !.rootFrom[b] = [k \in 1..n |-> IF k < firstNan /\ outc[b].f[k] = "ok" THEN st.facN[b] ELSE @[k]]]
          IN IF nanAt # {} THEN [st |-> st1, raised |-> "value", calls |-> newCalls]
             ELSE LET anyFail == \E k \in 1..n : outc[b].f[k] = "fail"
                      c   == IF anyFail THEN st1.mCnt[i] + 1 ELSE 0
                      st2 == [st1 EXCEPT
                                !.mCnt[i] = c,
                                !.lCnt = IF Dev("CounterLostOnRemask")
                                         THEN (IF st1.aliased THEN [@ EXCEPT ![i] = c] ELSE @)
                                         ELSE [@ EXCEPT ![b] = c],
                                !.failRun[b] = IF anyFail THEN @ + 1 ELSE 0]
                  IN IF c > g.tol THEN [st |-> st2, raised |-> "tol", calls |-> newCalls]
                     ELSE Amort(g, st2, i + 1, outc, s, newCalls)

\* SOAP: rotate block b into its eigenbasis?  mechanism vs. what C03 demands
UseBasisMech(g, st, b)  == g.nf[b] >= 1 /\ (IF Dev("FirstFactorDecidesBasis") THEN st.rootAt[b][1] > 0
                                                                               ELSE \A k \in 1..g.nf[b] : st.rootAt[b][k] > 0)
UseBasisGhost(g, st, b) == g.nf[b] >= 1 /\ \A k \in 1..g.nf[b] : st.rootAt[b][k] > 0

Add1(f, S)   == [b \in DOMAIN f |-> IF b \in S THEN f[b] + 1 ELSE f[b]]
\* position-wise zip of a masked list with the gradient list: buffer lst[i] receives gradient gl[i]
Into(src, lst, gl) == [b \in DOMAIN src |-> src[b] \cup {gl[i] : i \in {j \in 1..Len(lst) : lst[j] = b}}]
Cnt(cnt, lst)      == [b \in DOMAIN cnt |-> cnt[b] + Cardinality({j \in 1..Len(lst) : lst[j] = b})]

\* The whole per-group part of step().  Returns
\*   [st, raised \in {"none","value","tol","len"}, stepped, obs]
\* obs is what the harness can observe of this call (compared field by field in replay and trace validation).
GroupStep(g, st0, present, outc) ==
  LET stA == MaskStateLists(g, MergeAndBlock(g, st0, present))
      gl  == GradList(g, present)
      n   == Len(gl)
      lists(st) == [dMP |-> st.dMP, mP |-> st.mP, mK |-> st.mK, mG |-> st.mG, mF |-> st.mF, mM |-> st.mM,
                    lCnt |-> st.lCnt, mCnt |-> st.mCnt]
      mkobs(st, stepped, refresh, usegraft, calls, raised) ==
        [stepped |-> stepped, step |-> st.step, refresh |-> refresh, usegraft |-> usegraft, active |-> gl,
         calls |-> calls, raised |-> raised, lists |-> lists(st),
         rootAt |-> st.rootAt, pN |-> st.pN, facN |-> st.facN]
  IN IF gl = <<>>
     THEN [st |-> stA, raised |-> "none", stepped |-> FALSE, obs |-> mkobs(stA, FALSE, FALSE, FALSE, <<>>, "none")]
     ELSE
     LET s == stA.step + 1
         refresh == RefreshF(g, stA.hy.freq, s)
         usegraft == UseGraft(g, s)
         stB == [stA EXCEPT !.step = s]
         \* 5./6. L2 regularisation reads mP; factor update zips gradients with mK (zip strict)
         lenK == Len(stB.mK) = n /\ Len(stB.mP) = n /\ Len(stB.mG) = n /\ Len(stB.dMP) = n
     IN IF ~lenK
        THEN [st |-> stB, raised |-> "len", stepped |-> TRUE, obs |-> mkobs(stB, TRUE, refresh, usegraft, <<>>, "len")]
        ELSE
        LET \* a non-finite gradient poisons the factor matrices at accumulation time, whether or not the block's
            \* refresh is reached in this call
            stC == [stB EXCEPT !.facN = Cnt(@, stB.mK), !.kSrc = Into(@, stB.mK, gl),
                               !.poison = [b \in DOMAIN @ |-> @[b] \/ (\E i \in 1..n : stB.mK[i] = b /\ outc[gl[i]].inf /\ g.nf[b] >= 1)]]
            am  == IF refresh THEN Amort(g, stC, 1, outc, s, <<>>) ELSE [st |-> stC, raised |-> "none", calls |-> <<>>]
        IN IF am.raised # "none"
           THEN [st |-> am.st, raised |-> am.raised, stepped |-> TRUE,
                 obs |-> mkobs(am.st, TRUE, refresh, usegraft, am.calls, am.raised)]
           ELSE
           LET stD == am.st
               \* 9./10. grafting accumulator, SOAP corrected eigenvalues (after the refresh of this step)
               stE == [stD EXCEPT !.gN = IF g.graft THEN Cnt(@, stD.mG) ELSE @,
                                  !.gSrc = IF g.graft THEN Into(@, stD.mG, gl) ELSE @,
                                  !.cevN = IF g.kind = "soap" THEN Cnt(@, stD.mK) ELSE @]
               filtOn == stE.hy.b1 # 0
               momOn  == stE.hy.mom # 0
           IN IF filtOn /\ Len(stE.mF) # n
              THEN [st |-> stE, raised |-> "len", stepped |-> TRUE, obs |-> mkobs(stE, TRUE, refresh, usegraft, am.calls, "len")]
              ELSE
              LET stF == IF filtOn THEN [stE EXCEPT !.fN = Cnt(@, stE.mF), !.fSrc = Into(@, stE.mF, gl)] ELSE stE
              IN IF momOn /\ Len(stF.mM) # n
                 THEN [st |-> stF, raised |-> "len", stepped |-> TRUE, obs |-> mkobs(stF, TRUE, refresh, usegraft, am.calls, "len")]
                 ELSE
                 LET \* sources of the direction at position i: gradient, filtered-grad buffer, factors/roots, grafting
                     \* accumulator, momentum buffer, parameter (weight decay reads mP)
                     dirSrc(i) == {gl[i], stF.mK[i], stF.mP[i]}
                                  \cup (IF filtOn THEN {stF.mF[i]} ELSE {})
                                  \cup (IF g.graft THEN {stF.mG[i]} ELSE {})
                                  \cup (IF momOn THEN {stF.mM[i]} ELSE {})
                     stG == IF momOn THEN [stF EXCEPT !.mN = Cnt(@, stF.mM),
                                                      !.mSrc = [b \in DOMAIN @ |-> @[b] \cup
                                                                 UNION {dirSrc(i) : i \in {j \in 1..n : stF.mM[j] = b}}]]
                            ELSE stF
                     stH == [stG EXCEPT !.pN = Cnt(@, stG.dMP),
                                        !.pSrc = [b \in DOMAIN @ |-> @[b] \cup
                                                    UNION {dirSrc(i) : i \in {j \in 1..n : stG.dMP[j] = b}}]]
                 IN [st |-> stH, raised |-> "none", stepped |-> TRUE,
                     obs |-> mkobs(stH, TRUE, refresh, usegraft, am.calls, "none")]

---------------------------------------------------------------------------
\* What the properties demand of one call, as a function of (pre, post, inputs): the set of violated clauses.
Active(g, present) == {b \in BlocksOf(g) : g.pOf[b] \in present}

StepChecks(g, pre, r, present, outc) ==
  LET post == r.st
      act  == Active(g, present)
      s    == post.step
      refreshed == r.stepped /\ RefreshF(g, pre.hy.freq, s)
      processed == {r.obs.calls[i][1] : i \in 1..Len(r.obs.calls)}
  IN
  \* C04 StepCounter: advances by one iff some parameter of the group has a gradient
  (IF post.step = pre.step + (IF act # {} THEN 1 ELSE 0) THEN {} ELSE {"StepCounter"})
  \cup
  \* C04 Frame: blocks of parameters without a gradient keep every durable component (also on the exception path)
  (IF \A b \in BlocksOf(g) \ act : BlockDurable(post, b) = BlockDurable(pre, b) THEN {} ELSE {"Frame"})
  \cup
  \* C04 Alignment: every buffer only ever receives its own block's data
  (IF \A b \in BlocksOf(g) : /\ post.kSrc[b] \subseteq {b} /\ post.fSrc[b] \subseteq {b} /\ post.mSrc[b] \subseteq {b}
                             /\ post.gSrc[b] \subseteq {b} /\ post.pSrc[b] \subseteq {b}
   THEN {} ELSE {"Alignment"})
  \cup
  \* C04: a crash inside step() because two lists got out of step is a violation as well
  (IF r.raised = "len" THEN {"ListLengthMismatch"} ELSE {})
  \cup
  \* C01 RefreshTiming / HeldFixed: roots change only at refresh steps, only for active blocks, and then they are
  \* computed from the factor INCLUDING this step's accumulation
  (IF \A b \in BlocksOf(g) : \A k \in 1..g.nf[b] :
        post.rootAt[b][k] # pre.rootAt[b][k] =>
           (refreshed /\ b \in act /\ post.rootAt[b][k] = s /\ post.rootFrom[b][k] = post.facN[b])
   THEN {} ELSE {"RefreshTiming"})
  \cup
  \* C01: on a refresh step without failures every active block gets fresh roots
  (IF (refreshed /\ r.raised = "none" /\ \A b \in act : ~outc[b].inf /\ \A k \in 1..g.nf[b] : outc[b].f[k] = "ok")
        => \A b \in act : \A k \in 1..g.nf[b] : post.rootAt[b][k] = s
   THEN {} ELSE {"RefreshComplete"})
  \cup
  \* C01 one accumulation / one parameter update per active block per successful step
  (IF r.stepped /\ r.raised = "none"
        => \A b \in BlocksOf(g) : /\ post.facN[b] = pre.facN[b] + (IF b \in act THEN 1 ELSE 0)
                                   /\ post.pN[b] = pre.pN[b] + (IF b \in act THEN 1 ELSE 0)
   THEN {} ELSE {"OncePerStep"})
  \cup
  \* C13 NoParamChangeOnRaise
  (IF r.raised \in {"value", "tol"} => post.pN = pre.pN /\ post.mN = pre.mN /\ post.fN = pre.fN THEN {} ELSE {"NoParamChangeOnRaise"})
  \cup
  \* C13 KeepPreviousOnFail / StoredRootsFinite: a factor whose computation failed or returned NaN keeps its root
  (IF \A i \in 1..Len(r.obs.calls) :
        LET c == r.obs.calls[i] IN c[3] # "ok" => post.rootAt[c[1]][c[2]] = pre.rootAt[c[1]][c[2]]
   THEN {} ELSE {"KeepPreviousOnFail"})
  \cup
  \* C13 RaiseIffRun, per processed block in list order (ghost failRun against the mechanism's verdict):
  \* a tolerance error is raised exactly at the first processed block whose run length exceeds the tolerance
  (IF refreshed /\ r.raised \in {"none", "tol"}
   THEN LET over == {b \in processed : post.failRun[b] > g.tol}
        IN IF (r.raised = "tol") <=> (over # {}) THEN {} ELSE {"RaiseIffRun"}
   ELSE {})
  \cup
  \* C03 BasisUse: rotation is used exactly when every basis of the block exists
  (IF g.kind = "soap" /\ r.stepped /\ r.raised = "none"
        => \A b \in act : UseBasisMech(g, post, b) = UseBasisGhost(g, post, b)
   THEN {} ELSE {"BasisUse"})
=============================================================================
